/-
  Layout — how the transpiler cuts a script into blocks (parser.py: `_indent_of`, `_strip_inline_comment`,
  `_collect_block`, the `_collect_*_structure` helpers, the top-level dispatch of `parse()` and the nested dispatch of
  `_parse_simple_lines`), next to Python's own rule.

  Character level: `indentOf`, `stripInlineComment`.  Line level: a physical line is abstracted to its indentation, its
  kind (blank / comment-only / block header / simple statement), whether it carries a trailing comment, and a tag that
  identifies it; block structure is a forest of tags.
-/
namespace Reduino.Lang.Layout

/-! ### character level -/

/-- `_indent_of`: a space counts 1, a tab 4 -/
def indentOf : List Char → Nat
  | ' ' :: rest => 1 + indentOf rest
  | '\t' :: rest => 4 + indentOf rest
  | _ => 0

def isSpace (c : Char) : Bool := c = ' ' || c = '\t' || c = '\n' || c = '\r' || c = '\x0b' || c = '\x0c'

def rstrip (s : List Char) : List Char := (s.reverse.dropWhile isSpace).reverse

structure Scan where
  inSingle : Bool := false
  inDouble : Bool := false
  escaped : Bool := false

/-- `_strip_inline_comment`: cut at the first `#` outside a quoted string (a backslash escapes the next character) and
    right-strip; the text is returned unchanged when there is no such `#` -/
def stripGo (st : Scan) (acc : List Char) : List Char → Option (List Char)
  | [] => none
  | c :: rest =>
    if st.escaped then stripGo { st with escaped := false } (c :: acc) rest
    else if c = '\\' then stripGo { st with escaped := true } (c :: acc) rest
    else if c = '\'' ∧ !st.inDouble then stripGo { st with inSingle := !st.inSingle } (c :: acc) rest
    else if c = '"' ∧ !st.inSingle then stripGo { st with inDouble := !st.inDouble } (c :: acc) rest
    else if c = '#' ∧ !st.inSingle ∧ !st.inDouble then some (rstrip acc.reverse)
    else stripGo st (c :: acc) rest

def stripInlineComment (s : List Char) : List Char := (stripGo {} [] s).getD s

/-! ### line level -/

inductive HK where | ifH | elifH | elseH | whileH | forH | tryH | exceptH | whileTrue
  deriving DecidableEq, Repr

inductive Kind where
  | blank | comment | header (h : HK) | simple
  deriving DecidableEq, Repr

structure Line where
  indent : Nat
  kind : Kind
  /-- a `# comment` follows the code on the same line -/
  trailing : Bool := false
  tag : Nat
  deriving DecidableEq, Repr

inductive Tree where
  | leaf (tag : Nat)
  /-- a line the front end skips without a node or an error -/
  | dropped (tag : Nat)
  | node (tag : Nat) (h : HK) (children : List Tree)
  deriving Repr

/-- `_collect_block`: the lines after position 0 (the header, of indentation `base`) up to the first non-blank line
    indented no deeper than the header — a comment-only line counts as non-blank.  Returns (block, rest). -/
def collectBlock (base : Nat) : List Line → List Line × List Line
  | [] => ([], [])
  | l :: rest =>
    if l.kind = .blank then let (b, r) := collectBlock base rest; (l :: b, r)
    else if l.indent ≤ base then ([], l :: rest)
    else let (b, r) := collectBlock base rest; (l :: b, r)

theorem collectBlock_length (base : Nat) (ls : List Line) :
    (collectBlock base ls).1.length + (collectBlock base ls).2.length = ls.length := by
  induction ls with
  | nil => simp [collectBlock]
  | cons l rest ih =>
    simp only [collectBlock]
    split
    · simp; omega
    · split
      · simp
      · simp; omega

/-! ### `_collect_block` on RAW lines (W21): what the function does to the strings it is handed, before any classification -/

/-- Python `s.strip()` (the six ASCII blanks) -/
def strip (s : List Char) : List Char := rstrip (s.dropWhile isSpace)

/-- `not line.strip()`: the line consists of blanks only -/
def isBlankLine (s : List Char) : Bool := s.all isSpace

/-- `collectBlock` at the level of raw lines: blankness is `not line.strip()`, the indentation is `_indent_of(line)`; nothing else
    of a line is looked at.  Returns (block, rest). -/
def collectBlockRaw (base : Nat) : List (List Char) → List (List Char) × List (List Char)
  | [] => ([], [])
  | l :: rest =>
    if isBlankLine l then let (b, r) := collectBlockRaw base rest; (l :: b, r)
    else if indentOf l ≤ base then ([], l :: rest)
    else let (b, r) := collectBlockRaw base rest; (l :: b, r)

/-- `_collect_block(lines, start)` with its own calling convention: the header is `lines[start]`, the result is the block and the
    index of the first line after it.  (`lines[start]` out of range raises IndexError in Python; here it reads as the empty line.) -/
def collectBlockAt (lines : List (List Char)) (start : Nat) : List (List Char) × Nat :=
  let r := collectBlockRaw (indentOf (lines.getD start [])) (lines.drop (start + 1))
  (r.1, start + 1 + r.1.length)

/-- nested dispatch (`_parse_simple_lines`): headers are recognised on the comment-stripped line; the `elif`/`else`/
    `except` continuation of a chain is probed on the RAW stripped line, so a trailing comment hides it; lines are
    consumed sequentially whatever their indentation -/
def nested : Nat → List Line → List Tree
  | 0, _ => []
  | _, [] => []
  | fuel + 1, l :: rest =>
    match l.kind with
    | .blank | .comment => nested fuel rest
    | .simple => .leaf l.tag :: nested fuel rest
    | .header h =>
      match h with
      | .elifH | .elseH | .exceptH => .dropped l.tag :: nested fuel rest        -- a continuation met outside its chain: "unknown -> ignore"
      | .whileTrue | .whileH | .forH =>
        let (b, r) := collectBlock l.indent rest
        .node l.tag (if h = .whileTrue then .whileH else h) (nested fuel b) :: nested fuel r
      | .ifH | .tryH =>
        let (b, r) := collectBlock l.indent rest
        let first := Tree.node l.tag h (nested fuel b)
        let (conts, r') := chain fuel l.indent (h = .ifH) r
        first :: conts ++ nested fuel r'
where
  /-- the continuation probe after an `if` / `try` block -/
  chain : Nat → Nat → Bool → List Line → List Tree × List Line
    | 0, _, _, ls => ([], ls)
    | _, _, _, [] => ([], [])
    | fuel + 1, base, isIf, l :: rest =>
      if l.kind = .blank then chain fuel base isIf rest
      else if l.indent ≠ base then ([], l :: rest)
      else match l.kind with
        | .header .elifH =>
          if isIf ∧ !l.trailing then
            let (b, r) := collectBlock l.indent rest
            let (more, r') := chain fuel base isIf r
            (.node l.tag .elifH (nested fuel b) :: more, r')
          else ([], l :: rest)
        | .header .elseH =>
          if isIf ∧ !l.trailing then
            let (b, r) := collectBlock l.indent rest
            ([.node l.tag .elseH (nested fuel b)], r)
          else ([], l :: rest)
        | .header .exceptH =>
          if !isIf ∧ !l.trailing then
            let (b, r) := collectBlock l.indent rest
            let (more, r') := chain fuel base isIf r
            (.node l.tag .exceptH (nested fuel b) :: more, r')
          else ([], l :: rest)
        | _ => ([], l :: rest)

/-- what `_parse_simple_lines` makes of a snippet -/
def reduinoBlocks (ls : List Line) : List Tree := nested (ls.length + 1) ls

/-- `_collect_if_structure` / `_collect_try_structure` (top level): the block, then every continuation header at the same
    indentation (recognised on the RAW stripped line: no trailing comment) with its block -/
def collectChain : Nat → Nat → Bool → List Line → List Line × List Line
  | 0, _, _, ls => ([], ls)
  | _, _, _, [] => ([], [])
  | fuel + 1, base, isIf, l :: rest =>
    if l.kind = .blank then let (s, r) := collectChain fuel base isIf rest; (l :: s, r)
    else if l.indent ≠ base then ([], l :: rest)
    else
      let isCont : Bool := !l.trailing && (if isIf then (l.kind = .header .elifH || l.kind = .header .elseH) else l.kind = .header .exceptH)
      if isCont then
        let (b, r) := collectBlock l.indent rest
        let (s, r') := collectChain fuel base isIf r
        (l :: b ++ s, r')
      else ([], l :: rest)

structure Top where
  setup : List Tree := []
  loop : List Tree := []

/-- top-level dispatch of `parse()`: headers are recognised on the RAW stripped line, `while`/`for`/`while True` only at
    indentation 0; anything else goes to the nested dispatcher as a one-line snippet -/
def topLevel : Nat → List Line → Top → Top
  | 0, _, acc => acc
  | _, [], acc => acc
  | fuel + 1, l :: rest, acc =>
    match l.kind with
    | .blank | .comment => topLevel fuel rest acc
    | .header h =>
      if l.trailing then topLevel fuel rest { acc with setup := acc.setup ++ reduinoBlocks [l] }
      else match h with
        | .whileTrue =>
          if l.indent = 0 then
            let (b, r) := collectBlock l.indent rest
            topLevel fuel r { acc with loop := acc.loop ++ reduinoBlocks b }
          else topLevel fuel rest { acc with setup := acc.setup ++ reduinoBlocks [l] }
        | .whileH | .forH =>
          if l.indent = 0 then
            let (b, r) := collectBlock l.indent rest
            topLevel fuel r { acc with setup := acc.setup ++ reduinoBlocks (l :: b) }
          else topLevel fuel rest { acc with setup := acc.setup ++ reduinoBlocks [l] }
        | .ifH | .tryH =>
          let (b, r) := collectBlock l.indent rest
          let (s, r') := collectChain (rest.length + 1) l.indent (h = .ifH) r
          topLevel fuel r' { acc with setup := acc.setup ++ reduinoBlocks (l :: b ++ s) }
        | _ => topLevel fuel rest { acc with setup := acc.setup ++ reduinoBlocks [l] }
    | .simple => topLevel fuel rest { acc with setup := acc.setup ++ [.leaf l.tag] }

def reduinoProgram (ls : List Line) : Top := topLevel (ls.length + 1) ls {}

/-- Python's rule: blank and comment-only lines never open or close a block; trailing comments are invisible -/
def pyLines (ls : List Line) : List Line := ls.filter fun l => l.kind ≠ .blank ∧ l.kind ≠ .comment

def pyBlock (base : Nat) : List Line → List Line × List Line
  | [] => ([], [])
  | l :: rest => if l.indent ≤ base then ([], l :: rest) else let (b, r) := pyBlock base rest; (l :: b, r)

def pyParse : Nat → List Line → List Tree
  | 0, _ => []
  | _, [] => []
  | fuel + 1, l :: rest =>
    match l.kind with
    | .blank | .comment => pyParse fuel rest
    | .simple => .leaf l.tag :: pyParse fuel rest
    | .header h =>
      let (b, r) := pyBlock l.indent rest
      .node l.tag (if h = .whileTrue then .whileH else h) (pyParse fuel b) :: pyParse fuel r

/-- reference structure of a script -/
def pyBlocks (ls : List Line) : List Tree := pyParse (ls.length + 1) (pyLines ls)

end Reduino.Lang.Layout
