/-
  Order of hoisted ("promoted") declarations — `_promote_branch_decls` and the leftover loops of while/for promotion
  in parser.py.  The implementation collects the names newly declared in each branch as a Python `set`; the listing order
  of a set is not determined by the program (it depends on the hash seed), so it is a PARAMETER here: each branch's
  new names arrive in an arbitrary order.  With `sorted(...)` at the iteration sites the result no longer depends on it.
-/
namespace Reduino.Lang.Promote

/-- `record`: first occurrence wins, names already declared in the parent are skipped -/
def record (parent : List String) (order : List String) (name : String) : List String :=
  if name ∈ parent ∨ name ∈ order then order else order ++ [name]

def strLe (a b : String) : Bool := decide (a ≤ b)

/-- the order in which promoted declarations are emitted; `arrange` is what the code does to a branch's set of new
    names before iterating (`sorted` after the fix, the identity = raw set order before it) -/
def promote (arrange : List String → List String) (parent : List String) (branches : List (List String)) : List String :=
  branches.foldl (fun ord names => (arrange names).foldl (record parent) ord) []

def sorted (l : List String) : List String := l.mergeSort strLe

end Reduino.Lang.Promote
