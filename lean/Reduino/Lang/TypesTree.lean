import Reduino.Lang.Types
/-
  Declared types for block-structured programs (parser.py: child contexts of `if`/`while`/`for` bodies, `_promote_branch_decls`,
  the loop promotion in `_parse_simple_lines`, `_make_promotion_decls`).

  * a block body is parsed in a COPY of the enclosing context (`var_types`, `var_declared`);
  * a name first assigned directly at the level where its declaration stays (top level of the script, top level of the
    `while True:` body) is declared with the type of that first assignment;
  * a name first assigned inside a nested block is promoted outward when the block closes, with the type the block's own
    `var_types` holds for it AT THE END of the block (the last assignment inside the block); for an if/elif/else chain every branch
    starts from the same copy and the first branch (in source order) that introduces the name decides;
  * type changes a block makes to names that already existed outside are discarded when the block closes.
-/
namespace Reduino.Lang.Ty2

inductive Node (α : Type) where
  | assign (x : String) (e : E α)
  | branches (bs : List (List (Node α)))      -- if / elif / else bodies
  | loop (body : List (Node α))               -- nested while / for body
  | mainLoop (body : List (Node α))           -- body of the top-level `while True:` (its own declaration level: locals of loop())

structure Ctx where
  declared : List String := []
  cur : TEnv := []

/-- names introduced by a child context, in the order `sorted(new_names)` is NOT modelled: promotion types do not depend on it -/
def newNames (parent child : Ctx) : List String := child.declared.filter fun x => !parent.declared.contains x

/-- promote `names` out of a closed block whose final context is `child` -/
def promote (parent child : Ctx) (decl : TEnv) (names : List String) : Ctx × TEnv :=
  names.foldl (fun (acc : Ctx × TEnv) x =>
    if acc.1.declared.contains x then acc
    else
      let t := child.cur.get x
      ({ declared := acc.1.declared ++ [x], cur := acc.1.cur.set x t }, acc.2.set x t)) (parent, decl)

mutual
def procNode {α} (ctx : Ctx) (decl : TEnv) : Node α → Ctx × TEnv
  | .assign x e =>
    let t := infer ctx.cur e
    if ctx.declared.contains x then ({ ctx with cur := ctx.cur.set x t }, decl)
    else ({ declared := ctx.declared ++ [x], cur := ctx.cur.set x t }, decl.set x t)
  | .loop body =>
    let r := procList ctx decl body
    promote ctx r.1 r.2 (newNames ctx r.1)
  | .mainLoop body =>
    let r := procList ctx decl body
    (ctx, r.2)
  | .branches bs => procBranches ctx ctx decl bs

def procList {α} (ctx : Ctx) (decl : TEnv) : List (Node α) → Ctx × TEnv
  | [] => (ctx, decl)
  | n :: rest =>
    let r := procNode ctx decl n
    procList r.1 r.2 rest

/-- `base` is the context at the `if`; `acc` accumulates the promotions of the branches already closed -/
def procBranches {α} (base acc : Ctx) (decl : TEnv) : List (List (Node α)) → Ctx × TEnv
  | [] => (acc, decl)
  | b :: rest =>
    let r := procList base decl b
    let names := newNames base r.1
    -- a name an earlier branch already promoted keeps that declaration: this branch's own declaration becomes an assignment
    let kept := names.foldl (fun (d : TEnv) x => if acc.declared.contains x then d.set x (decl.get x) else d) r.2
    let p := promote acc r.1 kept names
    procBranches base p.1 p.2 rest
end

def declareT {α} (p : List (Node α)) : TEnv := (procList {} [] p).2

mutual
def flattenNode {α} : Node α → List (Stmt α)
  | .assign x e => [(x, e)]
  | .branches bs => flattenBranches bs
  | .loop body => flattenList body
  | .mainLoop body => flattenList body
def flattenList {α} : List (Node α) → List (Stmt α)
  | [] => []
  | n :: rest => flattenNode n ++ flattenList rest
def flattenBranches {α} : List (List (Node α)) → List (Stmt α)
  | [] => []
  | b :: rest => flattenList b ++ flattenBranches rest
end

section
variable {α : Type} [Num α] [Add α] [Sub α] [Mul α] [Div α] [Neg α] [LT α] [LE α] [DecidableLT α] [DecidableLE α]

/-- every assignment of the program, wherever it sits, infers (against the declared types) the type its target was declared with -/
def TypeStableT (p : List (Node α)) : Prop :=
  ∀ st ∈ flattenList p, Tame (declareT p) st.2 = true ∧ (declareT p).lookup st.1 = some (infer (declareT p) st.2)

end
end Reduino.Lang.Ty2
