/-
  String literals: `_escape_string_literal` (parser.py) and the C/C++ lexer's reading of a string-literal body.
  `escape` is the two `str.replace` passes as written (backslashes first, then double quotes);
  `lexBody` reads the characters after an opening `"` as a C++ compiler does for the simple escapes
  (`none` = malformed literal or an escape form this model does not cover: octal, hex, universal names).
-/
namespace Reduino.Lang.Esc

/-- `s.replace(c, by)` for a one-character pattern -/
def replaceChar (c : Char) (by_ : List Char) : List Char → List Char
  | [] => []
  | x :: xs => if x = c then by_ ++ replaceChar c by_ xs else x :: replaceChar c by_ xs

/-- `value.replace("\\", "\\\\").replace('"', '\\"')` -/
def escape (s : List Char) : List Char :=
  replaceChar '"' ['\\', '"'] (replaceChar '\\' ['\\', '\\'] s)

/-- simple escape sequences of C++ ([lex.ccon]) -/
def decodeEsc : Char → Option Char
  | '\\' => some '\\'
  | '"' => some '"'
  | '\'' => some '\''
  | '?' => some '?'
  | 'n' => some '\n'
  | 't' => some '\t'
  | 'r' => some '\r'
  | 'a' => some (Char.ofNat 7)
  | 'b' => some (Char.ofNat 8)
  | 'f' => some (Char.ofNat 12)
  | 'v' => some (Char.ofNat 11)
  | _ => none

/-- characters after the opening quote ↦ (decoded contents, text after the closing quote) -/
def lexBody : List Char → Option (List Char × List Char)
  | [] => none                                   -- unterminated
  | '"' :: rest => some ([], rest)
  | '\\' :: c :: rest =>
    match decodeEsc c, lexBody rest with
    | some d, some (s, r) => some (d :: s, r)
    | _, _ => none
  | ['\\'] => none
  | c :: rest =>
    if c = '\n' then none                          -- a raw newline ends the line inside a literal: ill-formed
    else match lexBody rest with
      | some (s, r) => some (c :: s, r)
      | none => none

/-- the literal the transpiler writes for a Python string value -/
def literal (s : List Char) : List Char := '"' :: escape s ++ ['"']

/-- what a C++ compiler reads back from `literal s ++ rest` -/
def readLiteral : List Char → Option (List Char × List Char)
  | '"' :: body => lexBody body
  | _ => none

end Reduino.Lang.Esc
