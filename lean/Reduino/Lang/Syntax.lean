/-
  Lang — a deep embedding of the core of the Reduino DSL (source side) and of the emitted C++ (target side).
  Source fragment: int/bool/string values (W13: string literals, string-typed names, `+` on two strings, serial lines carry text); + - *, bitwise & | ^, floor division `//` and modulo `%`, `abs`, two-argument `min`/`max`
  (W1), unary minus, comparisons, and/or/not, conditional expressions; assignment, augmented assignment (all binary operators),
  tuple (parallel) assignment `a, b = b, a + b` (W5), if/elif/else, while, for-range, break,
  serial write, sleep; a run-once prologue and an optional `while True:` main loop.
  W6: helper functions `def f(a, b): …; return e` before the prologue, called at statement level (`x = f(args)`, `f(args)`) — `Stmt.call`,
  `Helper`, `Prog.helpers`, `Prog.resolved`.
  Tuple assignment: the source statement `tuple k xs es` carries the value `k` the parser's `tmp_counter` has when it reaches the
  statement (a derived attribute: `Stmt.numberedFrom` / `Prog.numbered` say that the stored numbers are the parser's, `Stmt.renum`
  computes them; the driver renumbers every program it reads).  The target statement `ctuple k ts xs es` stands for the emitted lines
  `T0 __tmp_assign_k = e0; T1 __tmp_assign_(k+1) = e1; … x0 = __tmp_assign_k; x1 = __tmp_assign_(k+1); …`.
-/
namespace Reduino.Lang

inductive BinOp where | add | sub | mul | band | bor | bxor | fdiv | fmod
  deriving DecidableEq, Repr
inductive CmpOp where | lt | le | gt | ge | eq | ne
  deriving DecidableEq, Repr

inductive MinMax where | min | max
  deriving DecidableEq, Repr

inductive Expr where
  | int (n : Int)
  | bool (b : Bool)
  | str (s : String)                    -- a string literal (W13)
  | var (x : String)
  | bin (op : BinOp) (a b : Expr)
  | neg (a : Expr)
  | cmp (op : CmpOp) (a b : Expr)
  | and (a b : Expr)
  | or (a b : Expr)
  | not (a : Expr)
  | ite (c a b : Expr)
  | abs (a : Expr)                      -- the builtin `abs(a)`
  | mm (k : MinMax) (a b : Expr)        -- the builtins `min(a, b)` / `max(a, b)`; n-ary calls are the left fold `min(min(a, b), c)`
  | toStr (a : Expr)                    -- the builtin `str(a)` (W13); a formatted value `{a}` of an f-string is the same thing
  deriving DecidableEq, Repr

inductive Ty where | int | bool | string     -- `string` is the Arduino `String` class
  deriving DecidableEq, Repr

inductive Stmt where
  | skip
  | seq (a b : Stmt)
  | assign (x : String) (e : Expr)
  | aug (x : String) (op : BinOp) (e : Expr)
  | tuple (k : Nat) (xs : List String) (es : List Expr)                       -- source only: `x0, x1, … = e0, e1, …`
  | ctuple (k : Nat) (ts : List Ty) (xs : List String) (es : List Expr)      -- target only: temporaries, then assignments
  | ifs (c : Expr) (thn els : Stmt)
  | whileLoop (c : Expr) (body : Stmt)
  | forRange (i : String) (n : Expr) (body : Stmt)
  | write (e : Expr)
  | sleep (e : Expr)
  | brk
  /-- W6: a call of a helper function at statement level, `x = f(args)` (`x = some …`) or `f(args)`.  The statement CARRIES the
      definition it calls (parameters with their types, body, the expression of the one trailing `return`): a derived attribute like the
      counter of `tuple` — `Prog.resolved` says that the carried definition is the one of `Prog.helpers` with that name, the driver
      fills it in (`Prog.resolve`).  A body calls only helpers defined EARLIER, so the carried bodies are finite trees and both
      semantics run a call by structural descent (plus the statement fuel).  `ls` (the locals with their C++ types) and `rt` (the
      C++ return type) are target-side attributes filled in by `tr`; in a source statement they are `[]` and `.int`. -/
  | call (x : Option String) (f : String) (ps : List (String × Ty)) (ls : List (String × Ty)) (rt : Ty)
         (body : Stmt) (ret : Option Expr) (args : List Expr)
  deriving DecidableEq, Repr

/-- W6: `def name(ps): body; return ret` (a procedure has `ret = none`).  Source side: `ps` carry the types every call site passes
    (one signature per helper), `ls = []`, `rt = .int`; target side (`CProg.helpers`): `ls` the locals in declaration order, `rt` the
    return type of the emitted definition. -/
structure Helper where
  name : String
  ps : List (String × Ty)
  ls : List (String × Ty) := []
  rt : Ty := .int
  body : Stmt
  ret : Option Expr
  deriving DecidableEq, Repr

structure Prog where
  pre : Stmt
  body : Option Stmt
  /-- W6: the `def`s of the script, in source order, all before the first statement of the prologue -/
  helpers : List Helper := []
  deriving DecidableEq, Repr

/-! ### W6: calls carry the definition they call -/

/-- every call in the statement (not looking into the carried bodies) carries the definition `hs` lists under its name, with
    source-side attributes -/
def Stmt.callsOk (hs : List Helper) : Stmt → Bool
  | .seq a b => a.callsOk hs && b.callsOk hs
  | .ifs _ t e => t.callsOk hs && e.callsOk hs
  | .whileLoop _ b => b.callsOk hs
  | .forRange _ _ b => b.callsOk hs
  | .call _ f ps ls rt body ret _ =>
    (match hs.find? (·.name == f) with
     | some h => h.ps == ps && h.body == body && h.ret == ret
     | none => false) && ls == [] && rt == .int
  | _ => true

/-- the helpers in order: distinct names, source-side attributes, every body calls EARLIER helpers only (no recursion) -/
def helpersOk : List Helper → List Helper → Bool
  | _, [] => true
  | earlier, h :: rest =>
    !(earlier.any (·.name == h.name)) && h.ls == [] && h.rt == .int && h.body.callsOk earlier && helpersOk (earlier ++ [h]) rest

def Prog.resolved (p : Prog) : Bool :=
  helpersOk [] p.helpers && p.pre.callsOk p.helpers && (match p.body with | none => true | some b => b.callsOk p.helpers)

/-- fill in the carried definitions from the names (the driver reads calls with an empty carried definition) -/
def Stmt.resolve (hs : List Helper) : Stmt → Stmt
  | .seq a b => .seq (a.resolve hs) (b.resolve hs)
  | .ifs c t e => .ifs c (t.resolve hs) (e.resolve hs)
  | .whileLoop c b => .whileLoop c (b.resolve hs)
  | .forRange i n b => .forRange i n (b.resolve hs)
  | .call x f ps ls rt body ret args =>
    (match hs.find? (·.name == f) with
     | some h => .call x f h.ps [] .int h.body h.ret args
     | none => .call x f ps ls rt body ret args)
  | s => s

def resolveHelpers : List Helper → List Helper → List Helper
  | earlier, [] => earlier
  | earlier, h :: rest => resolveHelpers (earlier ++ [{ h with body := h.body.resolve earlier }]) rest

def Prog.resolve (p : Prog) : Prog :=
  let hs := resolveHelpers [] p.helpers
  { pre := p.pre.resolve hs, body := p.body.map (·.resolve hs), helpers := hs }

/-! ### tuple assignment: the temporaries and the parser's counter -/

/-- the C++ temporary number `n` of a tuple assignment (`f"__tmp_assign_{n}"`) -/
def tmpName (n : Nat) : String := "__tmp_assign_" ++ toString n

/-- names of that shape are reserved for the temporaries -/
def isTmp (x : String) : Bool := x.toList.take 13 == "__tmp_assign_".toList

/-- value of the parser's `tmp_counter` after the statement, entered with value `k`: a tuple assignment takes one temporary per
    right-hand side; loop bodies hand their counter back to the enclosing block, the branches of an `if` do not
    (every branch context is created from the parent's counter and dropped) -/
def Stmt.tmpEnd : Nat → Stmt → Nat
  | k, .seq a b => b.tmpEnd (a.tmpEnd k)
  | k, .tuple _ _ es => k + es.length
  | k, .whileLoop _ b => b.tmpEnd k
  | k, .forRange _ _ b => b.tmpEnd k
  | k, _ => k

/-- the numbers stored in the tuple statements are the parser's, entering with counter `k` -/
def Stmt.numberedFrom : Nat → Stmt → Bool
  | k, .seq a b => a.numberedFrom k && b.numberedFrom (a.tmpEnd k)
  | k, .tuple j _ _ => j == k
  | k, .ifs _ t e => t.numberedFrom k && e.numberedFrom k
  | k, .whileLoop _ b => b.numberedFrom k
  | k, .forRange _ _ b => b.numberedFrom k
  | _, .ctuple _ _ _ _ => false            -- not a source statement
  | _, _ => true

/-- one counter for the whole parse: the main loop continues where the prologue stopped -/
def Prog.numbered (p : Prog) : Bool :=
  p.pre.numberedFrom 0 && (match p.body with | none => true | some b => b.numberedFrom (p.pre.tmpEnd 0))

/-- (re)compute the stored numbers -/
def Stmt.renum : Nat → Stmt → Stmt
  | k, .seq a b => .seq (a.renum k) (b.renum (a.tmpEnd k))
  | k, .tuple _ xs es => .tuple k xs es
  | k, .ifs c t e => .ifs c (t.renum k) (e.renum k)
  | k, .whileLoop c b => .whileLoop c (b.renum k)
  | k, .forRange i n b => .forRange i n (b.renum k)
  | _, s => s

def Prog.renum (p : Prog) : Prog :=
  { pre := p.pre.renum 0, body := p.body.map (fun b => b.renum (p.pre.tmpEnd 0)), helpers := p.helpers }

/-! ### values, stores, events (shared by both semantics) -/

inductive Val where
  | int (n : Int)
  | bool (b : Bool)
  | str (s : String)
  deriving DecidableEq, Repr

/-- the integer a number stands for (a bool is 0/1); a string has none: the callers on the Python side go through `Val.num`, which
    raises; on the C side a `String` operand of an arithmetic operator does not compile and the model's value is meaningless -/
def Val.toInt : Val → Int
  | .int n => n
  | .bool b => if b then 1 else 0
  | .str _ => 0

/-- Python's truth value (a string is true iff it is non-empty).  The C++ reading of a `String` in a condition is different
    (`StringIfHelperType`: non-null buffer); the fragment keeps strings out of conditions (`Expr.wt`, `Stmt.okNested`) -/
def Val.truthy : Val → Bool
  | .int n => n ≠ 0
  | .bool b => b
  | .str s => s ≠ ""

def Val.ty : Val → Ty
  | .int _ => .int
  | .bool _ => .bool
  | .str _ => .string

def Val.isStr : Val → Bool
  | .str _ => true
  | _ => false

/-- the values a name of (coarse, inferred) type `t` holds on the Python side: a bool-typed name a bool, a string-typed name a string,
    an int-typed name an int or a bool (`x = p & q`), never a string -/
def Ty.holds : Ty → Val → Bool
  | .int, .int _ => true
  | .int, .bool _ => true
  | .bool, .bool _ => true
  | .string, .str _ => true
  | _, _ => false

/-- the text the Arduino core makes of a value: `String(int)` / `Serial.println(int)` print decimal digits with a leading `-`,
    a bool prints as 1 / 0, a `String` is its characters -/
def Val.text : Val → String
  | .int n => toString n
  | .bool b => if b then "1" else "0"
  | .str s => s

abbrev Store := List (String × Val)

def Store.get (s : Store) (x : String) : Option Val := s.lookup x
def Store.set (s : Store) (x : String) (v : Val) : Store := (x, v) :: s.filter (·.1 ≠ x)

/-- bind the names left to right (Python's unpacking of a tuple display into a target list) -/
def Store.setAll (s : Store) : List String → List Val → Store
  | x :: xs, v :: vs => (s.set x v).setAll xs vs
  | _, _ => s

inductive Ev where
  | write (s : String)   -- one serial line: the printed text (an int prints in decimal)
  | delay (ms : Int)
  deriving DecidableEq, Repr

/-! bitwise operators on arbitrary-precision two's-complement integers (Python's `& | ^` on ints; C's on in-range `int`s).
    Core Lean has them on `Nat` only; a negative number `-(n+1)` is the complement of `n`. -/

/-- `m & ~n` on naturals (`m &&& n` is a sub-mask of `m`) -/
def natAndNot (m n : Nat) : Nat := m ^^^ (m &&& n)

def bitAnd : Int → Int → Int
  | .ofNat m, .ofNat n => .ofNat (m &&& n)
  | .ofNat m, .negSucc n => .ofNat (natAndNot m n)
  | .negSucc m, .ofNat n => .ofNat (natAndNot n m)
  | .negSucc m, .negSucc n => .negSucc (m ||| n)

def bitOr : Int → Int → Int
  | .ofNat m, .ofNat n => .ofNat (m ||| n)
  | .ofNat m, .negSucc n => .negSucc (natAndNot n m)
  | .negSucc m, .ofNat n => .negSucc (natAndNot m n)
  | .negSucc m, .negSucc n => .negSucc (m &&& n)

def bitXor : Int → Int → Int
  | .ofNat m, .ofNat n => .ofNat (m ^^^ n)
  | .ofNat m, .negSucc n => .negSucc (m ^^^ n)
  | .negSucc m, .ofNat n => .negSucc (m ^^^ n)
  | .negSucc m, .negSucc n => .ofNat (m ^^^ n)

/-- Python's operator on integers (`//` rounds toward minus infinity, `%` takes the sign of the divisor); the zero divisor is
    excluded by `BinOp.pyEval` -/
def BinOp.eval : BinOp → Int → Int → Int
  | .add, a, b => a + b
  | .sub, a, b => a - b
  | .mul, a, b => a * b
  | .band, a, b => bitAnd a b
  | .bor, a, b => bitOr a b
  | .bxor, a, b => bitXor a b
  | .fdiv, a, b => a.fdiv b
  | .fmod, a, b => a.fmod b

/-- what the emitted C operator (`_BIN`: `//` becomes `/`, `%` stays `%`) computes on `int`s: `/` truncates toward zero, `%` takes
    the sign of the dividend; every other operator is Python's -/
def BinOp.ceval : BinOp → Int → Int → Int
  | .fdiv, a, b => a.tdiv b
  | .fmod, a, b => a.tmod b
  | op, a, b => op.eval a b

def BinOp.isDiv : BinOp → Bool
  | .fdiv => true
  | .fmod => true
  | _ => false

/-- Python's value of `x op y`: bools are ints in arithmetic, but `& | ^` of two bools is a bool -/
def BinOp.pyVal : BinOp → Val → Val → Val
  | .band, .bool a, .bool b => .bool (a && b)
  | .bor, .bool a, .bool b => .bool (a || b)
  | .bxor, .bool a, .bool b => .bool (a != b)
  | op, x, y => .int (op.eval x.toInt y.toInt)

/-- the Python `ast` operator class each constructor stands for (key of the transpiler's `_BIN` table, see GenOb/Ops) -/
def BinOp.astName : BinOp → String
  | .add => "Add" | .sub => "Sub" | .mul => "Mult" | .band => "BitAnd" | .bor => "BitOr" | .bxor => "BitXor"
  | .fdiv => "FloorDiv" | .fmod => "Mod"

/-- Python's `min(x, y)` / `max(x, y)` on numbers: the FIRST extremal operand, returned as it is (a bool stays a bool) -/
def MinMax.pick : MinMax → Val → Val → Val
  | .min, x, y => if y.toInt < x.toInt then y else x
  | .max, x, y => if y.toInt > x.toInt then y else x

/-- Arduino's macros `min(a,b) ((a)<(b)?(a):(b))`, `max(a,b) ((a)>(b)?(a):(b))` on the operand values -/
def MinMax.cpick : MinMax → Val → Val → Val
  | .min, x, y => if x.toInt < y.toInt then x else y
  | .max, x, y => if x.toInt > y.toInt then x else y

def CmpOp.astName : CmpOp → String
  | .lt => "Lt" | .le => "LtE" | .gt => "Gt" | .ge => "GtE" | .eq => "Eq" | .ne => "NotEq"

def CmpOp.eval : CmpOp → Int → Int → Bool
  | .lt, a, b => a < b
  | .le, a, b => a ≤ b
  | .gt, a, b => a > b
  | .ge, a, b => a ≥ b
  | .eq, a, b => a = b
  | .ne, a, b => a ≠ b

inductive Err where
  | nameError | typeError | fuel | breakOutside | negativeDelay
  /-- a C `int` computation left the 32-bit range (undefined behaviour) -/
  | overflow
  /-- division or modulo by zero: Python's ZeroDivisionError; undefined behaviour in C -/
  | zeroDiv
  /-- strict reading of the C semantics only: a `/` or `%` with a negative dividend or divisor, where C's truncating operators
      and Python's flooring ones may differ (K01b, K01c) -/
  | signedDiv
  deriving DecidableEq, Repr

/-- Python's `str(v)` / `format(v, "")` of an int (decimal digits) or a string (itself).  `str(True)` is `"True"` under CPython and
    `String(true)` is `"1"` on the device: bools are kept out of the model as for `mon.write` (`typeError`: no theorem speaks about
    such a run) -/
def Val.pyStr : Val → Except Err String
  | .int n => .ok (toString n)
  | .str s => .ok s
  | .bool _ => .error .typeError

/-- the operand of Python arithmetic: a string is a TypeError -/
def Val.num : Val → Except Err Int
  | .str _ => .error .typeError
  | v => .ok v.toInt

/-- Python's `x op y`: `+` on two strings concatenates; a string with a number is a TypeError (so is every other operator on
    strings here: the repetition `s * n` and `%`-formatting are outside the model); ZeroDivisionError on a zero divisor of `//`, `%` -/
def BinOp.pyEval (op : BinOp) (x y : Val) : Except Err Val :=
  match x, y with
  | .str s, .str t => if op = .add then .ok (.str (s ++ t)) else .error .typeError
  | .str _, _ => .error .typeError
  | _, .str _ => .error .typeError
  | _, _ => if op.isDiv ∧ y.toInt = 0 then .error .zeroDiv else .ok (op.pyVal x y)

/-- order and equality of two strings (Python compares code points; so does Lean's lexicographic order on `String`) -/
def CmpOp.evalStr : CmpOp → String → String → Bool
  | .lt, a, b => a < b
  | .le, a, b => a ≤ b
  | .gt, a, b => b < a
  | .ge, a, b => b ≤ a
  | .eq, a, b => a = b
  | .ne, a, b => a ≠ b

/-- Python's comparison: numbers by value, strings lexicographically; a string never equals a number and ordering the two is a
    TypeError -/
def CmpOp.pyEval (op : CmpOp) (x y : Val) : Except Err Bool :=
  match x, y with
  | .str s, .str t => .ok (op.evalStr s t)
  | .str _, _ | _, .str _ => (match op with | .eq => .ok false | .ne => .ok true | _ => .error .typeError)
  | _, _ => .ok (op.eval x.toInt y.toInt)

/-- Python's `min(x, y)` / `max(x, y)`: numbers as `MinMax.pick`, two strings by their order, a mix is a TypeError -/
def MinMax.pyPick (k : MinMax) (x y : Val) : Except Err Val :=
  match x, y with
  | .str s, .str t => .ok (match k with | .min => if t < s then y else x | .max => if s < t then y else x)
  | .str _, _ => .error .typeError
  | _, .str _ => .error .typeError
  | _, _ => .ok (k.pick x y)

end Reduino.Lang
