/-
  Lang — a deep embedding of the core of the Reduino DSL (source side) and of the emitted C++ (target side).
  Source fragment: int/bool values; + - *, unary minus, comparisons, and/or/not, conditional expressions;
  assignment, augmented assignment, if/elif/else, while, for-range, break, serial write, sleep; a run-once
  prologue and an optional `while True:` main loop.
-/
namespace Reduino.Lang

inductive BinOp where | add | sub | mul
  deriving DecidableEq, Repr
inductive CmpOp where | lt | le | gt | ge | eq | ne
  deriving DecidableEq, Repr

inductive Expr where
  | int (n : Int)
  | bool (b : Bool)
  | var (x : String)
  | bin (op : BinOp) (a b : Expr)
  | neg (a : Expr)
  | cmp (op : CmpOp) (a b : Expr)
  | and (a b : Expr)
  | or (a b : Expr)
  | not (a : Expr)
  | ite (c a b : Expr)
  deriving DecidableEq, Repr

inductive Stmt where
  | skip
  | seq (a b : Stmt)
  | assign (x : String) (e : Expr)
  | aug (x : String) (op : BinOp) (e : Expr)
  | ifs (c : Expr) (thn els : Stmt)
  | whileLoop (c : Expr) (body : Stmt)
  | forRange (i : String) (n : Expr) (body : Stmt)
  | write (e : Expr)
  | sleep (e : Expr)
  | brk
  deriving DecidableEq, Repr

structure Prog where
  pre : Stmt
  body : Option Stmt
  deriving DecidableEq, Repr

/-! ### values, stores, events (shared by both semantics) -/

inductive Val where
  | int (n : Int)
  | bool (b : Bool)
  deriving DecidableEq, Repr

def Val.toInt : Val → Int
  | .int n => n
  | .bool b => if b then 1 else 0

def Val.truthy : Val → Bool
  | .int n => n ≠ 0
  | .bool b => b

inductive Ty where | int | bool
  deriving DecidableEq, Repr

def Val.ty : Val → Ty
  | .int _ => .int
  | .bool _ => .bool

abbrev Store := List (String × Val)

def Store.get (s : Store) (x : String) : Option Val := s.lookup x
def Store.set (s : Store) (x : String) (v : Val) : Store := (x, v) :: s.filter (·.1 ≠ x)

inductive Ev where
  | write (n : Int)      -- one serial line carrying an int
  | delay (ms : Int)
  deriving DecidableEq, Repr

def BinOp.eval : BinOp → Int → Int → Int
  | .add, a, b => a + b
  | .sub, a, b => a - b
  | .mul, a, b => a * b

def CmpOp.eval : CmpOp → Int → Int → Bool
  | .lt, a, b => a < b
  | .le, a, b => a ≤ b
  | .gt, a, b => a > b
  | .ge, a, b => a ≥ b
  | .eq, a, b => a = b
  | .ne, a, b => a ≠ b

inductive Err where
  | nameError | typeError | fuel | breakOutside | negativeDelay
  /-- a C `int` computation left the 32-bit range (undefined behaviour) -/
  | overflow
  deriving DecidableEq, Repr

end Reduino.Lang
