import Reduino.Lang.CSem
/-
  `tr` — the transpiler (parser.py + emitter.py) on the core fragment.
  Mirrors: declaration at first top-level assignment (`_handle_assignment_ast`: a name-free constant initialiser goes
  into the global declaration, anything else gets the type's default and a run-time assignment in setup()),
  first-assignment-wins typing, `x op= e` → `x = (x op e)` (every operator of `_BIN`, so `&= |= ^= //= %=` too), folding of
  name-free `sleep(...)` / `range(...)` arguments to their PYTHON value (`sleep(-7 % 3)` becomes `delay(2)` although
  `(-7 % 3)` emitted as text is -1 in C), the setup/loop split and the `break` guard of the main loop.
  Tuple assignment `x0, x1 = e0, e1` with declared targets (top level, nested blocks, main loop): temporaries `__tmp_assign_N`
  numbered by the counter threaded through the parse (`Stmt.tmpEnd`; `tr` refuses a program whose stored numbers are not the
  parser's), declared with the inferred type of their right-hand side, then the plain assignments.
  A name-free initialiser that Python cannot evaluate (`x = 7 // 0`) is not a constant: default + run-time assignment.
  Strings (W13): `_infer_expr_type` gives `String` for a literal and for a binary operation with a `String` operand; a constant string
  initialiser goes into the global declaration (`String s = "ab";`), anything else gets the default `""`.
  Programs that assign a NEW name below the top level (they need the promotion machinery) are outside the fragment.
  Helper functions (W6): a call statement is translated together with the definition it carries (`funShapeOk`, `funDecls`, `retTy`,
  `callSiteOk`, `funCallsStable`); `withHelpers` adds the list of emitted definitions (`trHelper`) after checking `Prog.resolved` and
  `Prog.sigsOk` — see the comments there for the measured rules (which signature is emitted, when prototypes are).
-/
namespace Reduino.Lang

inductive TrErr where
  | breakInMainLoop            -- the transpiler raises ValueError
  | outsideFragment            -- not modelled (new name introduced in a nested block / main loop, loop-variable clash, …)
  deriving DecidableEq, Repr

def Expr.nameFree : Expr → Bool
  | .int _ => true
  | .bool _ => true
  | .str _ => true
  | .var _ => false
  | .bin _ a b => a.nameFree && b.nameFree
  | .neg a => a.nameFree
  | .cmp _ a b => a.nameFree && b.nameFree
  | .and a b => a.nameFree && b.nameFree
  | .or a b => a.nameFree && b.nameFree
  | .not a => a.nameFree
  | .ite c a b => c.nameFree && a.nameFree && b.nameFree
  | .abs a => a.nameFree                 -- `abs`, `min`, `max` are not names for `_expr_has_name`
  | .mm _ a b => a.nameFree && b.nameFree
  | .toStr a => a.nameFree               -- `str` is one of `_SAFE_NAME_REFERENCES`

/-- `_infer_expr_type` on the fragment -/
def inferTy (te : C.TyEnv) : Expr → Ty
  | .int _ => .int
  | .bool _ => .bool
  | .str _ => .string
  | .var x => (te.lookup x).getD .int
  -- `"String" in (left, right)` → String (the re-typing of a NAME operand that `_infer_expr_type` performs on the way is outside:
  -- `Expr.wt` admits a string operand only next to another one)
  | .bin _ a b => if inferTy te a = .string ∨ inferTy te b = .string then .string else .int
  | .neg a => inferTy te a
  | .cmp _ _ _ => .bool
  | .and _ _ => .bool
  | .or _ _ => .bool
  | .not _ => .bool
  | .ite _ a b => if inferTy te a = inferTy te b then inferTy te a else .int
  | .abs _ => .int                       -- `_BUILTIN_CALL_RETURN_TYPES`
  | .mm _ _ _ => .int
  | .toStr _ => .string                  -- `_BUILTIN_CALL_RETURN_TYPES["str"]`; also `JoinedStr`

/-- `_eval_const` on a name-free expression: Python's own value -/
def evalConst (e : Expr) : Option Val := if e.nameFree then (Py.eval [] e).toOption else none

/-- `_resolve_numeric_arg` / the sleep rule: a name-free argument is folded to `int(value)` -/
def foldArg (e : Expr) : Expr :=
  match evalConst e with
  | some v => .int v.toInt
  | none => e

def defaultOf : Ty → Expr
  | .int => .int 0
  | .bool => .bool false
  | .string => .str ""

/-- every target of a tuple assignment is declared with the type inferred for its right-hand side -/
def okTargets (te : C.TyEnv) : List String → List Expr → Bool
  | x :: xs, e :: es => (te.lookup x == some (inferTy te e)) && okTargets te xs es
  | _, _ => true

/-- the names a statement assigns (W6: a call `x = f(…)` assigns `x`) -/
def Stmt.assigned : Stmt → List String
  | .skip => []
  | .seq a b => a.assigned ++ b.assigned
  | .assign x _ => [x]
  | .aug x _ _ => [x]
  | .tuple _ xs _ => xs
  | .ctuple _ _ xs _ => xs
  | .ifs _ t e => t.assigned ++ e.assigned
  | .whileLoop _ b => b.assigned
  | .forRange _ _ b => b.assigned
  | .write _ => []
  | .sleep _ => []
  | .brk => []
  | .call x _ _ _ _ _ _ _ => x.toList

/-- no tuple assignment anywhere (how `tmp_counter` travels through a function body is not modelled: W6 keeps tuples out of helpers) -/
def Stmt.tupleFree : Stmt → Bool
  | .seq a b => a.tupleFree && b.tupleFree
  | .tuple _ _ _ => false
  | .ctuple _ _ _ _ => false
  | .ifs _ t e => t.tupleFree && e.tupleFree
  | .whileLoop _ b => b.tupleFree
  | .forRange _ _ b => b.tupleFree
  | _ => true

/-- W6, the declarations of a function body: a name that is not declared yet is declared by its first assignment at the TOP level of
    the body (`int t = (v * 2);`), with the type inferred for the right-hand side; a compound statement (or a call) assigns declared
    names only (a first assignment below the top level of a function body is a block-local declaration: not modelled) -/
def funDecls (te : C.TyEnv) : Stmt → Option C.TyEnv
  | .skip => some te
  | .seq a b => (funDecls te a).bind fun te1 => funDecls te1 b
  | .assign x e =>
    match te.lookup x with
    | some _ => some te
    | none => some (te ++ [(x, inferTy te e)])
  | s => if s.assigned.all (fun x => (te.lookup x).isSome) then some te else none

/-- W6, what the body of a helper must satisfy for the model to translate it: no tuple assignment, no assignment to a parameter
    (a re-assigned parameter may change the type the parser gives it — the "primary parse" subtlety of W8), parameter names distinct -/
def funShapeOk (ps : List (String × Ty)) (body : Stmt) : Bool :=
  body.tupleFree && body.assigned.all (fun x => (ps.lookup x).isNone) && (ps.map (·.1)).Nodup

/-! W6, which definition of a helper is emitted.  The parser parses a `def` once with ALL-INT parameters (the "primary" parse); a call
    whose TYPE it infers — `x = f(args)`: the right-hand side of an assignment — requests the signature `args.map infer` and the body
    is parsed again for it; a call statement `f(args)` requests nothing.  The emitted definitions are the requested ones, or the
    primary one when there is no request.  The model follows the case of ONE emitted definition per helper:
    `Prog.sigsOk` — a helper that is never called with a target has all-int parameters; `funCallsStable` — the argument types of the
    value calls inside a body do not depend on whether the body is parsed under all-int or under the requested parameter types (so the
    primary parse requests nothing else from the helpers it calls); `callSiteOk` — every call passes exactly the parameter types. -/

/-- helpers called with a target (`x = f(…)`) in the statement; the carried bodies are not entered -/
def Stmt.valueCalls : Stmt → List String
  | .seq a b => a.valueCalls ++ b.valueCalls
  | .ifs _ t e => t.valueCalls ++ e.valueCalls
  | .whileLoop _ b => b.valueCalls
  | .forRange _ _ b => b.valueCalls
  | .call (some _) f _ _ _ _ _ _ => [f]
  | _ => []

/-- the arguments of those calls -/
def Stmt.valueCallArgs : Stmt → List Expr
  | .seq a b => a.valueCallArgs ++ b.valueCallArgs
  | .ifs _ t e => t.valueCallArgs ++ e.valueCallArgs
  | .whileLoop _ b => b.valueCallArgs
  | .forRange _ _ b => b.valueCallArgs
  | .call (some _) _ _ _ _ _ _ args => args
  | _ => []

def Stmt.loopVars : Stmt → List String
  | .seq a b => a.loopVars ++ b.loopVars
  | .ifs _ t e => t.loopVars ++ e.loopVars
  | .whileLoop _ b => b.loopVars
  | .forRange i _ b => i :: b.loopVars
  | _ => []

def Prog.sigsOk (p : Prog) : Bool :=
  let called := p.pre.valueCalls ++ (match p.body with | some b => b.valueCalls | none => []) ++ p.helpers.flatMap (·.body.valueCalls)
  p.helpers.all fun h => h.ps.all (·.2 == .int) || called.contains h.name

/-- the return type of the emitted definition: inferred from the expression of the trailing `return` (`void` when there is none; the
    model's `rt` is then unused) -/
def retTy (te' : C.TyEnv) : Option Expr → Ty
  | some e => inferTy te' e
  | none => .int

/-- W6, a call site: as many arguments as parameters, each of the parameter's type (ONE signature per helper: no second variant is
    emitted); a target is declared with the return type, and only a value-returning helper has one -/
def callSiteOk (te : C.TyEnv) (ps : List (String × Ty)) (x : Option String) (ret : Option Expr) (rt : Ty) (args : List Expr) : Bool :=
  (args.map (inferTy te) == ps.map (·.2)) &&
    (match x, ret with
     | none, _ => true
     | some x, some _ => te.lookup x == some rt
     | some _, none => false)

/-- the value calls of a body request the same signatures under the all-int parse as under the declarations `te'` of the emitted
    definition (`for` variables are `int` in both) -/
def funCallsStable (ps : List (String × Ty)) (body : Stmt) (te' : C.TyEnv) : Bool :=
  match funDecls (ps.map fun q => (q.1, Ty.int)) body with
  | none => false
  | some teP =>
    let lv : C.TyEnv := body.loopVars.map fun i => (i, Ty.int)
    body.valueCallArgs.all fun e => inferTy (lv ++ teP) e == inferTy (lv ++ te') e

/-- nested statements: every assigned name must already be declared -/
def trNested (te : C.TyEnv) (inMain : Bool) : Nat → Stmt → Except TrErr Stmt
  | _, .skip => .ok .skip
  | d, .seq a b => do let a' ← trNested te inMain d a; let b' ← trNested te inMain d b; pure (.seq a' b')
  | _, .assign x e => if (te.lookup x).isSome then .ok (.assign x e) else .error .outsideFragment
  | _, .aug x op e => if (te.lookup x).isSome then .ok (.assign x (.bin op (.var x) e)) else .error .outsideFragment
  -- tuple assignment with every target already declared (with the type of its right-hand side): one temporary per right-hand
  -- side, typed by `_infer_expr_type`, then the assignments.  A target that is not declared yet takes other paths of
  -- `_handle_assignment_ast` (all-new names at global scope: plain global declarations; otherwise a LOCAL declaration of the new
  -- name, finding F17), a target of another type is re-typed (K02): not modelled
  | _, .tuple k xs es =>
    if xs.length = es.length ∧ okTargets te xs es = true then .ok (.ctuple k (es.map (inferTy te)) xs es)
    else .error .outsideFragment
  | _, .ctuple _ _ _ _ => .error .outsideFragment
  | d, .ifs c t e => do let t' ← trNested te inMain d t; let e' ← trNested te inMain d e; pure (.ifs c t' e')
  | d, .whileLoop c b => do let b' ← trNested te inMain (d + 1) b; pure (.whileLoop c b')
  | d, .forRange i n b =>
    if (te.lookup i).isSome then .error .outsideFragment
    else do let b' ← trNested ((i, .int) :: te) inMain (d + 1) b; pure (.forRange i (foldArg n) b')
  | _, .write e => .ok (.write e)
  | _, .sleep e => .ok (.sleep (foldArg e))
  | d, .brk => if inMain ∧ d = 0 then .error .breakInMainLoop else .ok .brk
  -- W6: a call at statement level.  The carried definition is translated on the spot (the same computation as `trHelper` on the
  -- listed definition): locals by `funDecls`, the body by `trNested` under parameters + locals, the return type by `retTy`; the
  -- call site by `callSiteOk`
  | _, .call x f ps _ _ body ret args =>
    if funShapeOk ps body = true then
      match funDecls ps body with
      | none => .error .outsideFragment
      | some te' => do
        let body' ← trNested te' false 0 body
        if (callSiteOk te ps x ret (retTy te' ret) args && funCallsStable ps body te') = true then
          pure (.call x f ps (te'.drop ps.length) (retTy te' ret) body' ret args)
        else .error .outsideFragment
    else .error .outsideFragment

structure TopAcc where
  globals : List (String × Ty × Expr) := []      -- reversed
  te : C.TyEnv := []
  setup : List Stmt := []                          -- reversed

/-- top-level statements of the prologue, in order -/
def trTop (acc : TopAcc) : Stmt → Except TrErr TopAcc
  | .skip => .ok acc
  | .seq a b => do let acc1 ← trTop acc a; trTop acc1 b
  | .assign x e =>
    match acc.te.lookup x with
    | some _ => .ok { acc with setup := .assign x e :: acc.setup }
    | none =>
      let t := inferTy acc.te e
      if e.nameFree ∧ (evalConst e).isSome then
        .ok { acc with globals := (x, t, e) :: acc.globals, te := acc.te ++ [(x, t)] }
      else
        .ok { globals := (x, t, defaultOf t) :: acc.globals, te := acc.te ++ [(x, t)], setup := .assign x e :: acc.setup }
  | s => do
    let s' ← trNested acc.te false 0 s
    pure { acc with setup := s' :: acc.setup }

def seqOf : List Stmt → Stmt
  | [] => .skip
  | [s] => s
  | s :: rest => .seq s (seqOf rest)

/-- W6: a listed definition, translated as at its call sites -/
def trHelper (h : Helper) : Except TrErr Helper :=
  if funShapeOk h.ps h.body = true then
    match funDecls h.ps h.body with
    | none => .error .outsideFragment
    | some te' => do
      let body' ← trNested te' false 0 h.body
      if funCallsStable h.ps h.body te' = true then pure { h with ls := te'.drop h.ps.length, rt := retTy te' h.ret, body := body' }
      else .error .outsideFragment
  else .error .outsideFragment

def trHelpers : List Helper → Except TrErr (List Helper)
  | [] => .ok []
  | h :: hs => do let h' ← trHelper h; let hs' ← trHelpers hs; pure (h' :: hs')

/-- the translation of prologue and main loop (the call statements carry their translated definitions); `tr` adds the list of
    emitted function definitions -/
def trCore (p : Prog) : Except TrErr CProg := do
  let acc ← trTop {} p.pre
  let loop ← match p.body with
    | none => pure Stmt.skip
    | some b => trNested acc.te true 0 b
  pure { globals := acc.globals.reverse, setup := seqOf acc.setup.reverse, loop := loop }

/-- tuple statements must carry the parser's counter (`Prog.renum` establishes it; the driver applies it to every program read) -/
def withHelpers (p : Prog) (core : Except TrErr CProg) : Except TrErr CProg :=
  if (p.resolved && p.sigsOk) = true then do
    let hs ← trHelpers p.helpers
    let c ← core
    pure { c with helpers := hs }
  else .error .outsideFragment

def tr (p : Prog) : Except TrErr CProg := if p.numbered then withHelpers p (trCore p) else .error .outsideFragment

theorem withHelpers_ok {p : Prog} {core : Except TrErr CProg} {c : CProg} (h : withHelpers p core = .ok c) :
    ∃ c0 hs, core = .ok c0 ∧ c = { c0 with helpers := hs } := by
  unfold withHelpers at h
  split at h
  · cases h1 : trHelpers p.helpers with
    | error e => rw [h1] at h; cases h
    | ok hs =>
      cases h2 : core with
      | error e => rw [h1, h2] at h; cases h
      | ok c0 => rw [h1, h2] at h; cases h; exact ⟨c0, hs, rfl, rfl⟩
  · cases h

theorem withHelpers_error {p : Prog} {core : Except TrErr CProg} {e : TrErr} (h : core = .error e) :
    ∃ e', withHelpers p core = .error e' := by
  unfold withHelpers
  split
  · cases h1 : trHelpers p.helpers with
    | error e1 => exact ⟨e1, rfl⟩
    | ok hs => rw [h]; exact ⟨e, rfl⟩
  · exact ⟨_, rfl⟩

theorem tr_ok {p : Prog} {c : CProg} (h : tr p = .ok c) :
    p.numbered = true ∧ ∃ c0 hs, trCore p = .ok c0 ∧ c = { c0 with helpers := hs } := by
  unfold tr at h
  split at h
  · exact ⟨‹_›, withHelpers_ok h⟩
  · cases h

end Reduino.Lang
