import Reduino.Lang.CSem
/-
  `tr` — the transpiler (parser.py + emitter.py) on the core fragment.
  Mirrors: declaration at first top-level assignment (`_handle_assignment_ast`: a name-free constant initialiser goes
  into the global declaration, anything else gets the type's default and a run-time assignment in setup()),
  first-assignment-wins typing, `x op= e` → `x = (x op e)` (every operator of `_BIN`, so `&= |= ^= //= %=` too), folding of
  name-free `sleep(...)` / `range(...)` arguments to their PYTHON value (`sleep(-7 % 3)` becomes `delay(2)` although
  `(-7 % 3)` emitted as text is -1 in C), the setup/loop split and the `break` guard of the main loop.
  Tuple assignment `x0, x1 = e0, e1` with declared targets (top level, nested blocks, main loop): temporaries `__tmp_assign_N`
  numbered by the counter threaded through the parse (`Stmt.tmpEnd`; `tr` refuses a program whose stored numbers are not the
  parser's), declared with the inferred type of their right-hand side, then the plain assignments.
  A name-free initialiser that Python cannot evaluate (`x = 7 // 0`) is not a constant: default + run-time assignment.
  Strings (W13): `_infer_expr_type` gives `String` for a literal and for a binary operation with a `String` operand; a constant string
  initialiser goes into the global declaration (`String s = "ab";`), anything else gets the default `""`.
  Programs that assign a NEW name below the top level (they need the promotion machinery) are outside the fragment.
-/
namespace Reduino.Lang

inductive TrErr where
  | breakInMainLoop            -- the transpiler raises ValueError
  | outsideFragment            -- not modelled (new name introduced in a nested block / main loop, loop-variable clash, …)
  deriving DecidableEq, Repr

def Expr.nameFree : Expr → Bool
  | .int _ => true
  | .bool _ => true
  | .str _ => true
  | .var _ => false
  | .bin _ a b => a.nameFree && b.nameFree
  | .neg a => a.nameFree
  | .cmp _ a b => a.nameFree && b.nameFree
  | .and a b => a.nameFree && b.nameFree
  | .or a b => a.nameFree && b.nameFree
  | .not a => a.nameFree
  | .ite c a b => c.nameFree && a.nameFree && b.nameFree
  | .abs a => a.nameFree                 -- `abs`, `min`, `max` are not names for `_expr_has_name`
  | .mm _ a b => a.nameFree && b.nameFree
  | .toStr a => a.nameFree               -- `str` is one of `_SAFE_NAME_REFERENCES`

/-- `_infer_expr_type` on the fragment -/
def inferTy (te : C.TyEnv) : Expr → Ty
  | .int _ => .int
  | .bool _ => .bool
  | .str _ => .string
  | .var x => (te.lookup x).getD .int
  -- `"String" in (left, right)` → String (the re-typing of a NAME operand that `_infer_expr_type` performs on the way is outside:
  -- `Expr.wt` admits a string operand only next to another one)
  | .bin _ a b => if inferTy te a = .string ∨ inferTy te b = .string then .string else .int
  | .neg a => inferTy te a
  | .cmp _ _ _ => .bool
  | .and _ _ => .bool
  | .or _ _ => .bool
  | .not _ => .bool
  | .ite _ a b => if inferTy te a = inferTy te b then inferTy te a else .int
  | .abs _ => .int                       -- `_BUILTIN_CALL_RETURN_TYPES`
  | .mm _ _ _ => .int
  | .toStr _ => .string                  -- `_BUILTIN_CALL_RETURN_TYPES["str"]`; also `JoinedStr`

/-- `_eval_const` on a name-free expression: Python's own value -/
def evalConst (e : Expr) : Option Val := if e.nameFree then (Py.eval [] e).toOption else none

/-- `_resolve_numeric_arg` / the sleep rule: a name-free argument is folded to `int(value)` -/
def foldArg (e : Expr) : Expr :=
  match evalConst e with
  | some v => .int v.toInt
  | none => e

def defaultOf : Ty → Expr
  | .int => .int 0
  | .bool => .bool false
  | .string => .str ""

/-- every target of a tuple assignment is declared with the type inferred for its right-hand side -/
def okTargets (te : C.TyEnv) : List String → List Expr → Bool
  | x :: xs, e :: es => (te.lookup x == some (inferTy te e)) && okTargets te xs es
  | _, _ => true

/-- nested statements: every assigned name must already be declared -/
def trNested (te : C.TyEnv) (inMain : Bool) : Nat → Stmt → Except TrErr Stmt
  | _, .skip => .ok .skip
  | d, .seq a b => do let a' ← trNested te inMain d a; let b' ← trNested te inMain d b; pure (.seq a' b')
  | _, .assign x e => if (te.lookup x).isSome then .ok (.assign x e) else .error .outsideFragment
  | _, .aug x op e => if (te.lookup x).isSome then .ok (.assign x (.bin op (.var x) e)) else .error .outsideFragment
  -- tuple assignment with every target already declared (with the type of its right-hand side): one temporary per right-hand
  -- side, typed by `_infer_expr_type`, then the assignments.  A target that is not declared yet takes other paths of
  -- `_handle_assignment_ast` (all-new names at global scope: plain global declarations; otherwise a LOCAL declaration of the new
  -- name, finding F17), a target of another type is re-typed (K02): not modelled
  | _, .tuple k xs es =>
    if xs.length = es.length ∧ okTargets te xs es = true then .ok (.ctuple k (es.map (inferTy te)) xs es)
    else .error .outsideFragment
  | _, .ctuple _ _ _ _ => .error .outsideFragment
  | d, .ifs c t e => do let t' ← trNested te inMain d t; let e' ← trNested te inMain d e; pure (.ifs c t' e')
  | d, .whileLoop c b => do let b' ← trNested te inMain (d + 1) b; pure (.whileLoop c b')
  | d, .forRange i n b =>
    if (te.lookup i).isSome then .error .outsideFragment
    else do let b' ← trNested ((i, .int) :: te) inMain (d + 1) b; pure (.forRange i (foldArg n) b')
  | _, .write e => .ok (.write e)
  | _, .sleep e => .ok (.sleep (foldArg e))
  | d, .brk => if inMain ∧ d = 0 then .error .breakInMainLoop else .ok .brk

structure TopAcc where
  globals : List (String × Ty × Expr) := []      -- reversed
  te : C.TyEnv := []
  setup : List Stmt := []                          -- reversed

/-- top-level statements of the prologue, in order -/
def trTop (acc : TopAcc) : Stmt → Except TrErr TopAcc
  | .skip => .ok acc
  | .seq a b => do let acc1 ← trTop acc a; trTop acc1 b
  | .assign x e =>
    match acc.te.lookup x with
    | some _ => .ok { acc with setup := .assign x e :: acc.setup }
    | none =>
      let t := inferTy acc.te e
      if e.nameFree ∧ (evalConst e).isSome then
        .ok { acc with globals := (x, t, e) :: acc.globals, te := acc.te ++ [(x, t)] }
      else
        .ok { globals := (x, t, defaultOf t) :: acc.globals, te := acc.te ++ [(x, t)], setup := .assign x e :: acc.setup }
  | s => do
    let s' ← trNested acc.te false 0 s
    pure { acc with setup := s' :: acc.setup }

def seqOf : List Stmt → Stmt
  | [] => .skip
  | [s] => s
  | s :: rest => .seq s (seqOf rest)

def trCore (p : Prog) : Except TrErr CProg := do
  let acc ← trTop {} p.pre
  let loop ← match p.body with
    | none => pure Stmt.skip
    | some b => trNested acc.te true 0 b
  pure { globals := acc.globals.reverse, setup := seqOf acc.setup.reverse, loop := loop }

/-- tuple statements must carry the parser's counter (`Prog.renum` establishes it; the driver applies it to every program read) -/
def tr (p : Prog) : Except TrErr CProg := if p.numbered then trCore p else .error .outsideFragment

theorem tr_ok {p : Prog} {c : CProg} (h : tr p = .ok c) : p.numbered = true ∧ trCore p = .ok c := by
  unfold tr at h
  split at h
  · exact ⟨‹_›, h⟩
  · cases h

end Reduino.Lang
