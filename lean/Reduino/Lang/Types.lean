import Reduino.Basic
/-
  Types — the type-assignment layer of the transpiler (parser.py: `_infer_expr_type`, first-declaration-wins in
  `_handle_assignment_ast`, `_merge_return_types`) against Python's dynamic values and C++'s static typing.

  * `V α`      Python values: bool, int, float (carrier α), str.
  * `E α`      expressions, including the builtin calls `abs(a)`, `min(a, b)`, `max(a, b)`, `int(a)`, `float(a)`, `bool(a)` as
               fixed-arity constructors (`min`/`max` of more arguments are the left fold the emitter produces; `str()` is not modelled).
  * `eval`     Python evaluation of an expression (`none` = the exception Python raises: NameError, TypeError, ZeroDivisionError;
               also `min`/`max`/`int`/`float` on str operands, whose ordering / numeral parsing is not modelled).
  * `infer`    `_infer_expr_type` on the same expressions (a name without a recorded type is "int"; a builtin call has the type
               `_BUILTIN_CALL_RETURN_TYPES` lists for it WHATEVER its arguments: `builtinRet`, tied to the source table by GenOb/Types.lean).
  * `declare`  the pass over the assignments IN SOURCE ORDER, whatever block they sit in: the first assignment to a name fixes
               the declared C++ type, every assignment updates the type used to infer later expressions.
  * `evalC`    C++ evaluation with static types (usual arithmetic conversions, `&&`/`||`/`!` give bool, `?:` converts to the
               common type, int / int truncates), and `conv`, the implicit conversion at a store into a declared variable.
               Builtins as emitted: `abs(x)` / `min(a,b)` / `max(a,b)` are the Arduino macros `((x)>0?(x):-(x))`, `((a)<(b)?(a):(b))`,
               `((a)>(b)?(a):(b))` (so the `?:` conversions apply), `int/float/bool(x)` are `static_cast`s (= `conv`).
  A program is a list of assignments; an execution is ANY sequence of its assignments (any branch choices, any number of loop
  iterations) — the declared types do not depend on it.
-/
namespace Reduino.Lang.Ty2

inductive T where | bool | int | float | str
  deriving DecidableEq, Repr

inductive V (α : Type) where
  | bool (b : Bool)
  | int (n : Int)
  | flt (x : α)
  | str (s : String)
  deriving Repr

def V.ty {α} : V α → T
  | .bool _ => .bool
  | .int _ => .int
  | .flt _ => .float
  | .str _ => .str

inductive AOp where | add | sub | mul | div
  deriving DecidableEq, Repr
inductive COp where | lt | le | eq
  deriving DecidableEq, Repr

inductive E (α : Type) where
  | lit (v : V α)
  | var (x : String)
  | neg (a : E α)
  | not (a : E α)
  | bin (op : AOp) (a b : E α)
  | cmp (op : COp) (a b : E α)
  | and (a b : E α)
  | or (a b : E α)
  | ite (c a b : E α)
  | abs (a : E α)              -- `abs(a)`
  | min (a b : E α)            -- `min(a, b)`
  | max (a b : E α)            -- `max(a, b)`
  | toInt (a : E α)            -- `int(a)`
  | toFloat (a : E α)          -- `float(a)`
  | toBool (a : E α)           -- `bool(a)`
  deriving Repr

/-- value order of the Python numeric tower as C++ can hold it without loss: bool ≤ int ≤ float; str on its own -/
def sub : T → T → Bool
  | .bool, .bool => true
  | .bool, .int => true
  | .bool, .float => true
  | .int, .int => true
  | .int, .float => true
  | .float, .float => true
  | .str, .str => true
  | _, _ => false

def T.isNum : T → Bool | .str => false | _ => true

abbrev TEnv := List (String × T)
def TEnv.get (g : TEnv) (x : String) : T := (g.lookup x).getD .int      -- `var_types.get(name, "int")`
def TEnv.set (g : TEnv) (x : String) (t : T) : TEnv := (x, t) :: g.filter (·.1 ≠ x)

/-! ### `_infer_expr_type` -/

/-- the modelled rows of `_BUILTIN_CALL_RETURN_TYPES` (parser.py), as the strings the table holds -/
def builtinRet : List (String × T) :=
  [("abs", .int), ("bool", .bool), ("float", .float), ("int", .int), ("max", .int), ("min", .int)]

def T.cname : T → String | .bool => "bool" | .int => "int" | .float => "float" | .str => "String"

def infer {α} (g : TEnv) : E α → T
  | .lit v => v.ty
  | .var x => g.get x
  | .neg a => infer g a
  | .not _ => .bool
  | .bin _ a b =>
    let l := infer g a
    let r := infer g b
    if l = .str ∨ r = .str then .str else if l = .float ∨ r = .float then .float else .int
  | .cmp _ _ _ => .bool
  | .and _ _ => .bool
  | .or _ _ => .bool
  | .ite _ a b =>
    let l := infer g a
    let r := infer g b
    if l = r then l else if l = .str ∨ r = .str then .str else if l = .float ∨ r = .float then .float else .int
  -- a `Call` of a builtin: the table entry, whatever the argument types
  | .abs _ => .int
  | .min _ _ => .int
  | .max _ _ => .int
  | .toInt _ => .int
  | .toFloat _ => .float
  | .toBool _ => .bool

/-- `_merge_return_types` over the types of the `return` expressions of one function (no bare `return`):
    `none` = ValueError("conflicting return types") -/
def mergeReturn (ts : List T) : Option T :=
  if ts = [] then none
  else if ts.contains .str then (if ts.all (· = .str) then some .str else none)
  else if ts.contains .float then some .float
  else if ts.all (· = .bool) then some .bool
  else some .int

/-! ### declarations: one pass in source order -/

structure Env where
  decl : TEnv := []      -- declared C++ type: fixed by the first assignment
  cur : TEnv := []       -- `var_types`: overwritten by every assignment

abbrev Stmt (α : Type) := String × E α

def declStep {α} (env : Env) (s : Stmt α) : Env :=
  let t := infer env.cur s.2
  { decl := if (env.decl.lookup s.1).isSome then env.decl else env.decl ++ [(s.1, t)],
    cur := env.cur.set s.1 t }

def declare {α} (p : List (Stmt α)) : Env := p.foldl declStep {}

/-! ### Python evaluation -/

section sem
variable {α : Type} [Num α] [Add α] [Sub α] [Mul α] [Div α] [Neg α] [LT α] [LE α] [DecidableLT α] [DecidableLE α]

abbrev Store (α : Type) := List (String × V α)
def Store.get (s : Store α) (x : String) : Option (V α) := s.lookup x
def Store.set (s : Store α) (x : String) (v : V α) : Store α := (x, v) :: s.filter (·.1 ≠ x)

def fzero (x : α) : Bool := !(decide (x < Num.ofInt 0)) && !(decide (Num.ofInt 0 < x))

def b2i (b : Bool) : Int := if b then 1 else 0

def V.truthy : V α → Bool
  | .bool b => b
  | .int n => n ≠ 0
  | .flt x => !fzero x
  | .str s => s ≠ ""

/-- a number as int (bool/int) or float -/
inductive N (α : Type) where | i (n : Int) | f (x : α)

def V.num? : V α → Option (N α)
  | .bool b => some (.i (b2i b))
  | .int n => some (.i n)
  | .flt x => some (.f x)
  | .str _ => none

def N.toF : N α → α
  | .i n => Num.ofInt n
  | .f x => x

def arithF (op : AOp) (x y : α) : Option α :=
  match op with
  | .add => some (x + y)
  | .sub => some (x - y)
  | .mul => some (x * y)
  | .div => if fzero y then none else some (x / y)

/-- Python `a op b` on numbers -/
def pyArith (op : AOp) : N α → N α → Option (V α)
  | .i a, .i b =>
    match op with
    | .add => some (.int (a + b))
    | .sub => some (.int (a - b))
    | .mul => some (.int (a * b))
    | .div => if b = 0 then none else some (.flt (Num.ofInt a / Num.ofInt b))
  | a, b => (arithF op a.toF b.toF).map .flt

def cmpN (op : COp) : N α → N α → Bool
  | .i a, .i b => match op with | .lt => decide (a < b) | .le => decide (a ≤ b) | .eq => decide (a = b)
  | a, b =>
    match op with
    | .lt => decide (a.toF < b.toF)
    | .le => decide (a.toF ≤ b.toF)
    | .eq => decide (a.toF ≤ b.toF) && decide (b.toF ≤ a.toF)

/-- Python `abs(v)`: keeps the numeric type, a bool becomes an int; TypeError on str -/
def pyAbs : V α → Option (V α)
  | .bool b => some (.int (b2i b))
  | .int n => some (.int (if n < 0 then -n else n))
  | .flt x => some (.flt (if x < Num.ofInt 0 then -x else x))
  | .str _ => none

/-- Python `min(x, y)`: one of the OPERANDS (with its own type) — `x` unless `y < x` -/
def pyMin (x y : V α) : Option (V α) :=
  match x.num?, y.num? with
  | some m, some n => some (if cmpN .lt n m then y else x)
  | _, _ => none

/-- Python `max(x, y)`: `x` unless `x < y` (the first of equal operands, as for `min`) -/
def pyMax (x y : V α) : Option (V α) :=
  match x.num?, y.num? with
  | some m, some n => some (if cmpN .lt m n then y else x)
  | _, _ => none

/-- Python `int(v)`: truncation toward zero on floats, `int(True) = 1` -/
def pyInt : V α → Option (V α)
  | .bool b => some (.int (b2i b))
  | .int n => some (.int n)
  | .flt x => some (.int (Num.trunc x))
  | .str _ => none

/-- Python `float(v)` -/
def pyFloat (v : V α) : Option (V α) := v.num?.map fun m => .flt m.toF

def eval (s : Store α) : E α → Option (V α)
  | .lit v => some v
  | .var x => s.get x
  | .neg a =>
    match eval s a with
    | some (.bool b) => some (.int (-(b2i b)))
    | some (.int n) => some (.int (-n))
    | some (.flt x) => some (.flt (-x))
    | _ => none
  | .not a => (eval s a).map fun v => .bool (!v.truthy)
  | .bin op a b =>
    match eval s a, eval s b with
    | some (.str x), some (.str y) => if op = .add then some (.str (x ++ y)) else none
    | some x, some y =>
      match x.num?, y.num? with
      | some m, some n => pyArith op m n
      | _, _ => none
    | _, _ => none
  | .cmp op a b =>
    match eval s a, eval s b with
    | some (.str x), some (.str y) => if op = .eq then some (.bool (x = y)) else none
    | some x, some y =>
      match x.num?, y.num? with
      | some m, some n => some (.bool (cmpN op m n))
      | _, _ => none
    | _, _ => none
  | .and a b =>
    match eval s a with
    | some x => if x.truthy then eval s b else some x
    | none => none
  | .or a b =>
    match eval s a with
    | some x => if x.truthy then some x else eval s b
    | none => none
  | .ite c a b =>
    match eval s c with
    | some x => if x.truthy then eval s a else eval s b
    | none => none
  | .abs a => (eval s a).bind pyAbs
  | .min a b => (eval s a).bind fun x => (eval s b).bind fun y => pyMin x y
  | .max a b => (eval s a).bind fun x => (eval s b).bind fun y => pyMax x y
  | .toInt a => (eval s a).bind pyInt
  | .toFloat a => (eval s a).bind pyFloat
  | .toBool a => (eval s a).map fun v => .bool v.truthy

def pyStep (s : Store α) (st : Stmt α) : Option (Store α) := (eval s st.2).map (s.set st.1)

def pyRun : Store α → List (Stmt α) → Option (Store α)
  | s, [] => some s
  | s, st :: rest => (pyStep s st).bind fun s' => pyRun s' rest

/-! ### C++ evaluation with static types -/

/-- type of `((a)<(b)?(a):(b))` for operands of types `l`, `r`: the common type of the second and third operand of `?:`
    (two bools stay bool; String operands are not modelled) -/
def macroType (l r : T) : Option T :=
  if l = .str ∨ r = .str then none
  else if l = r then some l
  else if l = .float ∨ r = .float then some .float else some .int

/-- static type of an expression for the C++ compiler; `none` = does not type-check in this model -/
def ctype (g : TEnv) : E α → Option T
  | .lit v => some v.ty
  | .var x => g.lookup x
  | .neg a => (ctype g a).bind fun t => match t with | .str => none | .float => some .float | _ => some .int
  | .not a => (ctype g a).bind fun t => if t = .str then none else some .bool
  | .bin op a b =>
    match ctype g a, ctype g b with
    | some .str, some .str => if op = .add then some .str else none
    | some l, some r => if l = .str ∨ r = .str then none else if l = .float ∨ r = .float then some .float else some .int
    | _, _ => none
  | .cmp op a b =>
    match ctype g a, ctype g b with
    | some .str, some .str => if op = .eq then some .bool else none
    | some l, some r => if l = .str ∨ r = .str then none else some .bool
    | _, _ => none
  | .and a b =>
    match ctype g a, ctype g b with
    | some l, some r => if l = .str ∨ r = .str then none else some .bool
    | _, _ => none
  | .or a b =>
    match ctype g a, ctype g b with
    | some l, some r => if l = .str ∨ r = .str then none else some .bool
    | _, _ => none
  | .ite c a b =>
    match ctype g c, ctype g a, ctype g b with
    | some tc, some l, some r =>
      if tc = .str then none
      else if l = r then some l
      else if l = .str ∨ r = .str then none
      else if l = .float ∨ r = .float then some .float else some .int
    | _, _, _ => none
  -- `((x)>0?(x):-(x))`: the third operand is promoted, so a bool operand gives an int
  | .abs a => (ctype g a).bind fun t => match t with | .str => none | .float => some .float | _ => some .int
  | .min a b => (ctype g a).bind fun l => (ctype g b).bind fun r => macroType l r
  | .max a b => (ctype g a).bind fun l => (ctype g b).bind fun r => macroType l r
  | .toInt a => (ctype g a).bind fun t => if t = .str then none else some .int
  | .toFloat a => (ctype g a).bind fun t => if t = .str then none else some .float
  | .toBool a => (ctype g a).bind fun t => if t = .str then none else some .bool

/-- C++ implicit conversion of a value to a type (`none` = no such conversion) -/
def conv (t : T) (v : V α) : Option (V α) :=
  match t, v with
  | .bool, .str _ => none
  | .bool, v => some (.bool v.truthy)
  | .int, .bool b => some (.int (b2i b))
  | .int, .int n => some (.int n)
  | .int, .flt x => some (.int (Num.trunc x))          -- the lossy one
  | .float, .bool b => some (.flt (Num.ofInt (b2i b)))
  | .float, .int n => some (.flt (Num.ofInt n))
  | .float, .flt x => some (.flt x)
  | .str, .str s => some (.str s)
  | _, _ => none

def cArith (op : AOp) : N α → N α → Option (V α)
  | .i a, .i b =>
    match op with
    | .add => some (.int (a + b))
    | .sub => some (.int (a - b))
    | .mul => some (.int (a * b))
    | .div => if b = 0 then none else some (.int (Int.tdiv a b))      -- integer division
  | a, b => (arithF op a.toF b.toF).map .flt

/-- `((x)>0?(x):-(x))` -/
def cAbs : V α → Option (V α)
  | .bool b => some (.int (b2i b))                                    -- b>0 ? int(b) : -int(b)
  | .int n => some (.int (if 0 < n then n else -n))
  | .flt x => some (.flt (if Num.ofInt 0 < x then x else -x))
  | .str _ => none

/-- `((a)<(b)?(a):(b))` with `?:` result type `t`: the comparison under the usual arithmetic conversions, the chosen operand converted to `t` -/
def cMin (t : T) (x y : V α) : Option (V α) :=
  match x.num?, y.num? with
  | some m, some n => conv t (if cmpN .lt m n then x else y)
  | _, _ => none

/-- `((a)>(b)?(a):(b))` -/
def cMax (t : T) (x y : V α) : Option (V α) :=
  match x.num?, y.num? with
  | some m, some n => conv t (if cmpN .lt n m then x else y)
  | _, _ => none

def evalC (g : TEnv) (s : Store α) : E α → Option (V α)
  | .lit v => some v
  | .var x => s.get x
  | .neg a =>
    match evalC g s a with
    | some (.bool b) => some (.int (-(b2i b)))
    | some (.int n) => some (.int (-n))
    | some (.flt x) => some (.flt (-x))
    | _ => none
  | .not a =>
    match evalC g s a with
    | some (.str _) => none
    | some v => some (.bool (!v.truthy))
    | none => none
  | .bin op a b =>
    match evalC g s a, evalC g s b with
    | some (.str x), some (.str y) => if op = .add then some (.str (x ++ y)) else none
    | some x, some y =>
      match x.num?, y.num? with
      | some m, some n => cArith op m n
      | _, _ => none
    | _, _ => none
  | .cmp op a b =>
    match evalC g s a, evalC g s b with
    | some (.str x), some (.str y) => if op = .eq then some (.bool (x = y)) else none
    | some x, some y =>
      match x.num?, y.num? with
      | some m, some n => some (.bool (cmpN op m n))
      | _, _ => none
    | _, _ => none
  | .and a b =>
    match evalC g s a with
    | some (.str _) => none
    | some x => if x.truthy then (match evalC g s b with | some (.str _) => none | some y => some (.bool y.truthy) | none => none) else some (.bool false)
    | none => none
  | .or a b =>
    match evalC g s a with
    | some (.str _) => none
    | some x => if x.truthy then some (.bool true) else (match evalC g s b with | some (.str _) => none | some y => some (.bool y.truthy) | none => none)
    | none => none
  | .ite c a b =>
    match evalC g s c, ctype g (.ite c a b) with
    | some x, some t => (if x.truthy then evalC g s a else evalC g s b).bind (conv t)
    | _, _ => none
  | .abs a => (evalC g s a).bind cAbs
  | .min a b =>
    match ctype g (.min a b) with
    | some t => (evalC g s a).bind fun x => (evalC g s b).bind fun y => cMin t x y
    | none => none
  | .max a b =>
    match ctype g (.max a b) with
    | some t => (evalC g s a).bind fun x => (evalC g s b).bind fun y => cMax t x y
    | none => none
  | .toInt a => (evalC g s a).bind (conv .int)
  | .toFloat a => (evalC g s a).bind (conv .float)
  | .toBool a => (evalC g s a).bind (conv .bool)

/-- a store into a declared variable converts to its declared type -/
def cStep (g : TEnv) (s : Store α) (st : Stmt α) : Option (Store α) :=
  match g.lookup st.1, evalC g s st.2 with
  | some t, some v => (conv t v).map (s.set st.1)
  | _, _ => none

def cRun (g : TEnv) : Store α → List (Stmt α) → Option (Store α)
  | s, [] => some s
  | s, st :: rest => (cStep g s st).bind fun s' => cRun g s' rest

/-! ### the relation "the C++ variable holds the value Python holds" -/

/-- the representation of a Python value in a C++ variable of type `t` when nothing is lost -/
def rep (t : T) (v : V α) : Option (V α) := if sub v.ty t then conv t v else none

def StoreRep (g : TEnv) (py c : Store α) : Prop :=
  ∀ x v, py.get x = some v → ∃ t, g.lookup x = some t ∧ ∃ vc, rep t v = some vc ∧ c.get x = some vc

/-- a bool- or int-typed operand -/
def T.isIntegral : T → Bool | .bool => true | .int => true | _ => false

/-- expressions on which `_infer_expr_type` is a sound static type (relative to declared types `g`):
    no true division of two non-floats, no arithmetic negation of a bool, `and`/`or` only on bools, no str/number mixing;
    `abs`/`min`/`max` (typed int by the table whatever their arguments) only over bool/int-typed operands — a float operand is K02e —
    and `min`/`max` not over two bool-typed operands (the macro's `?:` then has type bool, not the table's int: the value is
    still right after the store conversion, but the compiler's type is not the inferred one);
    `int()`/`float()`/`bool()` over any numeric operand -/
def Tame (g : TEnv) : E α → Bool
  | .lit _ => true
  | .var x => (g.lookup x).isSome
  | .neg a => Tame g a && (infer g a = .int || infer g a = .float)
  | .not a => Tame g a && (infer g a).isNum
  | .bin op a b =>
    Tame g a && Tame g b &&
      ((infer g a = .str && infer g b = .str && op = .add) ||
       ((infer g a).isNum && (infer g b).isNum && (op ≠ .div || infer g a = .float || infer g b = .float)))
  | .cmp op a b =>
    Tame g a && Tame g b &&
      ((infer g a = .str && infer g b = .str && op = .eq) || ((infer g a).isNum && (infer g b).isNum))
  | .and a b => Tame g a && Tame g b && infer g a = .bool && infer g b = .bool
  | .or a b => Tame g a && Tame g b && infer g a = .bool && infer g b = .bool
  | .ite c a b =>
    Tame g c && Tame g a && Tame g b && (infer g c).isNum &&
      (infer g a = infer g b || ((infer g a).isNum && (infer g b).isNum))
  | .abs a => Tame g a && (infer g a).isIntegral
  | .min a b => Tame g a && Tame g b && (infer g a).isIntegral && (infer g b).isIntegral && (infer g a = .int || infer g b = .int)
  | .max a b => Tame g a && Tame g b && (infer g a).isIntegral && (infer g b).isIntegral && (infer g a = .int || infer g b = .int)
  | .toInt a => Tame g a && (infer g a).isNum
  | .toFloat a => Tame g a && (infer g a).isNum
  | .toBool a => Tame g a && (infer g a).isNum

/-- every assignment to a name infers the type the name was declared with (so `var_types` never drifts from the declaration) -/
def TypeStable (p : List (Stmt α)) : Prop :=
  ∀ st ∈ p, Tame (declare p).decl st.2 = true ∧ (declare p).decl.lookup st.1 = some (infer (declare p).decl st.2)

end sem
end Reduino.Lang.Ty2
