/-
  Library bookkeeping: `_collect_required_libraries` (src/Reduino/__init__.py, a deep walk of the IR), the `#include`
  flags set by emit() pass 1 (`servo_used`, `lcd_parallel_used`, `lcd_i2c_used`) and the global library objects it defines.
  A program is abstracted to its device declarations with their position.
-/
namespace Reduino.Lang.Libs

inductive Kind where | servo | lcdPar | lcdI2c | other
  deriving DecidableEq, Repr

/-- where a declaration sits: before the main loop (top level), at the top of the `while True:` body, or nested in
    a branch / loop / function body -/
inductive Pos where | setupTop | loopTop | nested
  deriving DecidableEq, Repr

structure Decl where
  kind : Kind
  pos : Pos
  deriving DecidableEq, Repr

def libName : Kind → Option String
  | .servo => some "Servo" | .lcdPar => some "LiquidCrystal" | .lcdI2c => some "LiquidCrystal_I2C" | .other => none

def order : List Kind := [.servo, .lcdPar, .lcdI2c]

/-- PlatformIO libraries requested: any declaration of the kind, anywhere in the IR -/
def libs (ds : List Decl) : List String :=
  order.filterMap fun k => if ds.any (·.kind = k) then libName k else none

/-- emit() pass 1 reaches Servo declarations at the top level of setup_body and loop_body, LCD declarations only at the
    top level of setup_body -/
def hoisted (d : Decl) : Bool :=
  match d.kind with
  | .servo => d.pos ≠ .nested
  | .lcdPar | .lcdI2c => d.pos = .setupTop
  | .other => false

/-- library headers included (one per flag) -/
def includes (ds : List Decl) : List String :=
  order.filterMap fun k => if ds.any (fun d => d.kind = k ∧ hoisted d) then libName k else none

/-- library classes of which a global object is defined (same pass, same condition) -/
def instantiated (ds : List Decl) : List String :=
  order.filterMap fun k => if ds.any (fun d => d.kind = k ∧ hoisted d) then libName k else none

/-- the documented style: LCDs before the main loop, servos before it or at the top of its body -/
def Documented (ds : List Decl) : Prop :=
  ∀ d ∈ ds, (d.kind = .servo → d.pos ≠ .nested) ∧ ((d.kind = .lcdPar ∨ d.kind = .lcdI2c) → d.pos = .setupTop)

end Reduino.Lang.Libs
