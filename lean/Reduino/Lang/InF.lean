import Reduino.Lang.Tr
/-
  `InF` — the decidable syntactic fragment on which translation correctness (C01) is proved.  It is also the filter of
  the program generator.  Beyond what `tr` itself enforces (every assigned name is first assigned at top level):
    * expressions are well typed for the coarse inference: `and`/`or` over bool-typed operands (their Python value is
      then a bool), unary minus over an int-typed operand, conditional expressions with equally typed branches,
      `min`/`max` over int-typed operands (Python returns the operand itself, C++ the common type of both);
      the binary operators `+ - * & | ^ // %` and `abs` take operands of either type (the inferred type is `int`, the
      Python value converted to `int` is what C computes; `&`, `|`, `^` of two bools is a Python bool, which `mon.write`
      then refuses in the model);
    * `//` and `%` need no side condition here: a zero divisor makes the Python run fail (the theorem's premise), a negative
      operand makes the strict C run stop with `signedDiv` (the theorem's third outcome);
    * every assignment to a name has the type the name was declared with (first assignment wins);
    * for-range: the loop variable is not assigned anywhere in the program, is distinct from enclosing loop variables,
      is read only inside its own loop; the body assigns no name occurring in the range argument;
    * tuple assignment `x0, x1, … = e0, e1, …` (W5; top level, nested blocks, main loop): two or more targets, as many right-hand
      sides, every right-hand side well typed, every target ALREADY declared with the type inferred for its right-hand side
      (a first assignment by tuple takes other paths of the transpiler: the all-new-at-global-scope form and the local
      declarations of finding F17 are outside); the targets are assigned names, so they are never `for` variables; the names
      `__tmp_assign_<n>` are reserved: a program with a tuple assignment has no assigned name and no declared name of that shape;
    * `mon.write` of int- or string-typed expressions (a bool prints as True/False under CPython and 1/0 on the device);
    * strings (W13): literals of printable ASCII; a string-typed expression is a literal, a string-typed name, a conditional
      expression with two string branches, `str(e)` of an int- or string-typed `e` (not bool: "True" vs "1"), or `a + b` on two
      strings where the emitted sum has a `String` object on one side (`Expr.binTyOk`; `s += e` likewise); strings are kept out of conditions (`if`, `while`, `not`, the test of a conditional
      expression: Python tests "non-empty", the `String` class something else), out of counts (`range`, `sleep`: `Expr.okCond`),
      out of every other arithmetic and out of comparisons; a name keeps one type, so a string-typed name is only ever assigned strings.
    * helper functions (W6): `def`s before the prologue, called at STATEMENT level only — `f(args)`, `x = f(args)` with `x` already
      declared — with pure, well-typed arguments of exactly the parameter types (int/bool/string, one signature per helper); the body
      is a nested statement of the fragment over its PARAMETERS and LOCALS only (locals first assigned at the top level of the body;
      parameters never assigned; no tuple assignment; no module-level name, neither read nor written: K01j is the known defect about
      writes), followed by at most one trailing `return e` with `e` well typed under the body's declarations and `x` declared with its
      type; a body calls only helpers defined EARLIER (no recursion: `Prog.resolved`, checked by `tr`); the names a body assigns are
      among `allAssigned` (they are no `for` variables anywhere).  `mon.write` / `sleep` / loops / `break` inside loops of the body are
      ordinary statements of the fragment.
-/
namespace Reduino.Lang

def Expr.vars : Expr → List String
  | .int _ => []
  | .bool _ => []
  | .str _ => []
  | .var x => [x]
  | .bin _ a b => a.vars ++ b.vars
  | .neg a => a.vars
  | .cmp _ a b => a.vars ++ b.vars
  | .and a b => a.vars ++ b.vars
  | .or a b => a.vars ++ b.vars
  | .not a => a.vars
  | .ite c a b => c.vars ++ a.vars ++ b.vars
  | .abs a => a.vars
  | .mm _ a b => a.vars ++ b.vars
  | .toStr a => a.vars

/-- the characters a literal of the fragment may contain: printable ASCII (the emitted literal escapes `\` and `"`,
    `Esc.escape`; what the C++ lexer reads back is C06's `escape_roundtrip`) -/
def okLitChar (c : Char) : Bool := 32 ≤ c.toNat && c.toNat < 127

/-- the emitted C++ expression has the static type `const char*` (a literal, or a conditional expression choosing between two such):
    `const char* + const char*` does not compile, while a `String` on either side of `+` does -/
def Expr.cstr : Expr → Bool
  | .str _ => true
  | .ite _ a b => a.cstr && b.cstr
  | _ => false

def Expr.isLit : Expr → Bool
  | .str _ => true
  | _ => false

/-- operand types of a binary operator: two numbers, or `+` on two strings of which the emitted left operand (a literal is wrapped
    into `String("…")`) or the right one is a `String` object -/
def Expr.binTyOk (te : C.TyEnv) (op : BinOp) (a b : Expr) : Bool :=
  (inferTy te a != .string && inferTy te b != .string) ||
  (op == .add && inferTy te a == .string && inferTy te b == .string && (a.isLit || !a.cstr || !b.cstr))

/-- coarse-type discipline of an expression under `te` -/
def Expr.wt (te : C.TyEnv) : Expr → Bool
  | .int _ => true
  | .bool _ => true
  | .str s => s.toList.all okLitChar
  | .var x => (te.lookup x).isSome
  | .bin op a b => a.wt te && b.wt te && Expr.binTyOk te op a b
  | .neg a => a.wt te && inferTy te a == .int
  | .cmp _ a b => a.wt te && b.wt te && inferTy te a != .string && inferTy te b != .string
  | .and a b => a.wt te && b.wt te && inferTy te a == .bool && inferTy te b == .bool
  | .or a b => a.wt te && b.wt te && inferTy te a == .bool && inferTy te b == .bool
  | .not a => a.wt te && inferTy te a != .string
  | .ite c a b => c.wt te && a.wt te && b.wt te && inferTy te a == inferTy te b && inferTy te c != .string
  | .abs a => a.wt te
  | .mm _ a b => a.wt te && b.wt te && inferTy te a == .int && inferTy te b == .int
  | .toStr a => a.wt te && inferTy te a != .bool          -- `str(True)` is "True", `String(true)` is "1"

/-- a condition (`if`, `while`) or a count (`range`, `sleep`): well typed and not a string (Python's truth value of a string is
    "non-empty", the `String` class converts differently; `range("a")` / `sleep("a")` raise) -/
def Expr.okCond (te : C.TyEnv) (c : Expr) : Bool := c.wt te && inferTy te c != .string

/-- W6: target and `return` of a call: a procedure call has neither; the value of a `return e` may be dropped (`f(args)`) or assigned
    to a name declared with the type inferred for `e` under the declarations `te'` of the body; `x = f(…)` with a procedure `f` (the
    value `None`) is outside -/
def callRetOk (te te' : C.TyEnv) : Option String → Option Expr → Bool
  | none, none => true
  | none, some e => e.wt te'
  | some y, some e => e.wt te' && (te.lookup y == some (inferTy te' e))
  | some _, none => false

/-- statements below the top level; `te` holds the globals declared so far plus the loop variables in scope;
    `allAssigned` are all names assigned anywhere in the program -/
def Stmt.okNested (allAssigned : List String) (te : C.TyEnv) : Stmt → Bool
  | .skip => true
  | .seq a b => a.okNested allAssigned te && b.okNested allAssigned te
  | .assign x e => e.wt te && (te.lookup x == some (inferTy te e))
  | .aug x op e => (Expr.bin op (.var x) e).wt te && (te.lookup x == some (inferTy te (.bin op (.var x) e)))
  | .tuple _ xs es =>
    2 ≤ xs.length && xs.length == es.length && es.all (fun e => e.wt te) &&
    okTargets te xs es &&
    allAssigned.all (fun x => !isTmp x) && te.all (fun d => !isTmp d.1)
  | .ctuple _ _ _ _ => false
  | .ifs c t e => c.okCond te && t.okNested allAssigned te && e.okNested allAssigned te
  | .whileLoop c b => c.okCond te && b.okNested allAssigned te
  | .forRange i n b =>
    n.okCond te && !(allAssigned.contains i) && (te.lookup i).isNone &&
    n.vars.all (fun v => !(b.assigned.contains v)) &&
    b.okNested allAssigned ((i, .int) :: te)
  | .write e => e.wt te && inferTy te e != .bool
  | .sleep e => e.okCond te
  | .brk => true
  -- W6 (increments 2, 3): a call `f(args)` / `x = f(args)`: well-typed arguments of exactly the parameter types, distinct parameters
  -- that the body never assigns, no tuple assignment in the body (`funShapeOk`); the body is a nested statement of the fragment
  -- under its own declarations — parameters, then the locals first assigned at its top level (`funDecls`) — and the names it
  -- assigns are among `allAssigned` (so they are no `for` variables); the `return` expression is well typed under those
  -- declarations and the target is declared with its type (`callRetOk`)
  | .call x _ ps _ _ body ret args =>
    args.all (fun e => e.wt te) && (args.map (inferTy te) == ps.map (·.2)) && funShapeOk ps body &&
    (match funDecls ps body with
     | some te' => body.okNested allAssigned te' && body.assigned.all (fun x => allAssigned.contains x) && callRetOk te te' x ret
     | none => false)

/-- the prologue, statement by statement, threading the declarations exactly as `trTop` does -/
def Stmt.okTop (allAssigned : List String) (te : C.TyEnv) : Stmt → Option C.TyEnv
  | .skip => some te
  | .seq a b => do let te1 ← a.okTop allAssigned te; b.okTop allAssigned te1
  | .assign x e =>
    if !(e.wt te) then none
    else match te.lookup x with
      | some t => if t == inferTy te e then some te else none
      | none => some (te ++ [(x, inferTy te e)])
  | s => if s.okNested allAssigned te then some te else none

def InF (p : Prog) : Bool :=
  let all := p.pre.assigned ++ (match p.body with | some b => b.assigned | none => []) ++ p.helpers.flatMap (·.body.assigned)
  match p.pre.okTop all [] with
  | none => false
  | some te => match p.body with
    | none => true
    | some b => b.okNested all te

end Reduino.Lang
