import Reduino.Lang.Tr
import Reduino.Lang.Escape
/- C++ text of a translated program, line by line, in the emitter's own format (compared whitespace-normalised). -/
namespace Reduino.Lang

def BinOp.sym : BinOp → String
  | .add => "+" | .sub => "-" | .mul => "*" | .band => "&" | .bor => "|" | .bxor => "^" | .fdiv => "/" | .fmod => "%"
/-- the emitter's tokens for unary minus and `not` (the `_UN` table) -/
def negSym : String := "-"
def notSym : String := "!"
def CmpOp.sym : CmpOp → String | .lt => "<" | .le => "<=" | .gt => ">" | .ge => ">=" | .eq => "==" | .ne => "!="

def MinMax.name : MinMax → String | .min => "min" | .max => "max"

def Expr.c : Expr → String
  | .int n => toString n
  | .bool b => if b then "true" else "false"
  | .str t => "\"" ++ String.ofList (Esc.escape t.toList) ++ "\""      -- `_escape_string_literal`
  | .var x => x
  -- `if isinstance(n.op, ast.Add) and left_c.startswith('"'): left_c = f"String({left_c})"` (only a literal starts with a quote)
  | .bin op a b => (match op, a with
    | .add, .str _ => s!"(String({a.c}) {op.sym} {b.c})"
    | _, _ => s!"({a.c} {op.sym} {b.c})")
  | .neg a => s!"({negSym}{a.c})"
  | .cmp op a b => s!"({a.c} {op.sym} {b.c})"
  | .and a b => s!"({a.c} && {b.c})"
  | .or a b => s!"({a.c} || {b.c})"
  | .not a => s!"({notSym}{a.c})"
  | .ite c a b => s!"({c.c} ? {a.c} : {b.c})"
  | .abs a => s!"abs({a.c})"
  | .mm k a b => s!"{k.name}({a.c}, {b.c})"
  | .toStr a => s!"String({a.c})"

def Ty.c : Ty → String | .int => "int" | .bool => "bool" | .string => "String"

def tmpDeclLines : Nat → List Ty → List Expr → List String
  | k, t :: ts, e :: es => s!"{t.c} {tmpName k} = {e.c};" :: tmpDeclLines (k + 1) ts es
  | _, _, _ => []

def tmpAssignLines : Nat → List String → List String
  | _, [] => []
  | k, x :: xs => s!"{x} = {tmpName k};" :: tmpAssignLines (k + 1) xs

/-- W6: `x = f(a, b);` / `f(a, b);` -/
def callLine (x : Option String) (f : String) (args : List Expr) : String :=
  (match x with | some x => x ++ " = " | none => "") ++ f ++ "(" ++ ", ".intercalate (args.map Expr.c) ++ ");"

def Stmt.isSkip : Stmt → Bool | .skip => true | _ => false

/-- lines of a statement; `chain` marks an `ifs` printed as `else if` -/
def Stmt.lines : Stmt → List String
  | .skip => []
  | .seq a b => a.lines ++ b.lines
  | .assign x e => [s!"{x} = {e.c};"]
  | .aug x op e => [s!"{x} = ({x} {op.sym} {e.c});"]
  | .tuple _ _ _ => []
  | .ctuple k ts xs es => tmpDeclLines k ts es ++ tmpAssignLines k xs
  | .ifs c t e =>
    [s!"if ({c.c}) \{"] ++ t.lines ++ ["}"] ++
      (match e with
       | .skip => []
       | .ifs c2 t2 e2 =>
         match (Stmt.ifs c2 t2 e2).lines with
         | first :: rest => ("else " ++ first) :: rest
         | [] => []
       | other => ["else {"] ++ other.lines ++ ["}"])
  | .whileLoop c b => [s!"while ({c.c}) \{"] ++ b.lines ++ ["}"]
  | .forRange i n b => [s!"for (int {i} = 0; {i} < {n.c}; ++{i}) \{"] ++ b.lines ++ ["}"]
  | .write e => [s!"Serial.println({e.c});"]
  | .sleep e => [s!"delay({e.c});"]
  | .brk => ["break;"]
  | .call x f _ _ _ _ _ args => [callLine x f args]

/-! ### W6: function definitions -/

/-- the statements of a function body: the first top-level assignment of a local is its declaration `T x = e;` (`ls`: the locals with
    their types; `dcl`: the locals declared so far) -/
def Stmt.flines (ls : C.TyEnv) : List String → Stmt → List String × List String
  | dcl, .seq a b =>
    let r1 := a.flines ls dcl
    let r2 := b.flines ls r1.2
    (r1.1 ++ r2.1, r2.2)
  | dcl, .assign x e =>
    match ls.lookup x with
    | some t => if dcl.contains x then ([s!"{x} = {e.c};"], dcl) else ([s!"{t.c} {x} = {e.c};"], x :: dcl)
    | none => ([s!"{x} = {e.c};"], dcl)
  | dcl, s => (s.lines, dcl)

/-- `int scale(int v, bool flag)` / `void shout(int v)` -/
def Helper.sig (h : Helper) : String :=
  (match h.ret with | some _ => h.rt.c | none => "void") ++ " " ++ h.name ++ "(" ++
    ", ".intercalate (h.ps.map fun p => p.2.c ++ " " ++ p.1) ++ ")"

def Helper.retLines (h : Helper) : List String :=
  match h.ret with | some e => [s!"return {e.c};"] | none => []

def Helper.defLines (h : Helper) : List String :=
  [h.sig ++ " {"] ++ (h.body.flines h.ls []).1 ++ h.retLines ++ ["}"]

/-- the prototypes — only when MORE THAN ONE definition is emitted (`if len(functions) > 1`) — then the definitions (`emitter.py`:
    between the globals and `setup()`) -/
def helperLines (hs : List Helper) : List String :=
  (if 1 < hs.length then hs.map (fun h => h.sig ++ ";") else []) ++ hs.flatMap Helper.defLines

/-- the whole sketch; the scripts of this fragment always start with `mon = SerialMonitor(9600)` -/
def CProg.lines (c : CProg) : List String :=
  ["#include <Arduino.h>"] ++
  c.globals.map (fun g => s!"{g.2.1.c} {g.1} = {g.2.2.c};") ++
  helperLines c.helpers ++
  ["void setup() {", "Serial.begin(9600);"] ++ c.setup.lines ++ ["}"] ++
  ["void loop() {"] ++ c.loop.lines ++ ["}"]

end Reduino.Lang
