import Reduino.Lang.Syntax
import Reduino.Lang.PySem
/-
  Target side: the emitted sketch as typed globals + `setup()` + `loop()` over the same statement syntax, with C++
  semantics (typed variables with implicit conversion at assignment, `&&`/`||`/`!` yield bool, `?:` converts to a
  common type, `for (int i = 0; i < limit; ++i)` re-evaluates its limit and owns a block-scoped `i`).
  C `int` is modelled as an unbounded integer (the 16/32-bit range is a separate side condition, see Props/C01).
  `/` and `%` have two readings, selected by a trailing `Mode` argument of every evaluator (default `.strict`): the RAW reading
  is C's (truncation toward zero, remainder with the sign of the dividend, zero divisor undefined); the STRICT reading
  additionally stops with `signedDiv` when the dividend or the divisor is negative — the operands on which C's operators and
  Python's `//`, `%` may differ — exactly as `chk` stops with `overflow`.  A strict run that succeeds is a raw run
  (`Props/C01.strict_run_is_raw_run`).
-/
namespace Reduino.Lang

structure CProg where
  globals : List (String × Ty × Expr)
  setup : Stmt
  loop : Stmt
  /-- W6: the emitted function definitions (prototypes + definitions between the globals and `setup()`); the call statements of
      `setup` / `loop` carry the definition they call, so `C.run` does not look here — `CProg.lines` does -/
  helpers : List Helper := []
  deriving DecidableEq, Repr

namespace C

abbrev TyEnv := List (String × Ty)

/-- `int` results must stay in the 32-bit range of the host compiler used by the correspondence check
    (signed overflow is undefined behaviour; on a 16-bit AVR `int` the admissible range is smaller still) -/
def chk (r : Int) : Except Err Val :=
  if -2147483648 ≤ r ∧ r ≤ 2147483647 then .ok (.int r) else .error .overflow

inductive Mode where | strict | raw
  deriving DecidableEq, Repr

/-- a binary operator on two `int`s (bool operands were promoted by the caller).  `INT_MIN / -1` and `INT_MIN % -1` overflow. -/
def binop (op : BinOp) (a b : Int) (m : Mode := .strict) : Except Err Val :=
  if op.isDiv then
    if b = 0 then .error .zeroDiv
    else if m = .strict ∧ (a < 0 ∨ b < 0) then .error .signedDiv
    else do let _ ← chk (a.tdiv b); chk (op.ceval a b)
  else chk (op.ceval a b)

/-- a binary operator on two values: `+` on two `String`s concatenates; an arithmetic operator with one `String` operand is not
    modelled (`String + int` would append the digits, everything else does not compile): `typeError` -/
def binopV (op : BinOp) (x y : Val) (m : Mode := .strict) : Except Err Val :=
  match x, y with
  | .str s, .str t => if op = .add then .ok (.str (s ++ t)) else .error .typeError
  | .str _, _ => .error .typeError
  | _, .str _ => .error .typeError
  | _, _ => binop op x.toInt y.toInt m

/-- implicit conversion to the declared type at an assignment / initialisation.  `String x = <int>` uses the constructor
    `String(int)` (`Val.text`); a `String` converted to `int`/`bool` does not compile (the model's value is meaningless; the
    fragment never assigns across types) -/
def conv (t : Ty) (v : Val) : Val :=
  match t with
  | .int => .int v.toInt
  | .bool => .bool v.truthy
  | .string => .str v.text

/-- static type of an expression (what the C compiler sees) -/
def typeOf (te : TyEnv) : Expr → Ty
  | .int _ => .int
  | .bool _ => .bool
  | .str _ => .string                    -- a literal is a `const char*`; it converts to `String` wherever the fragment uses it
  | .var x => (te.lookup x).getD .int
  | .bin _ a b => if typeOf te a = .string ∨ typeOf te b = .string then .string else .int
  | .neg _ => .int
  | .cmp _ _ _ => .bool
  | .and _ _ => .bool
  | .or _ _ => .bool
  | .not _ => .bool
  | .ite _ a b => if typeOf te a = typeOf te b then typeOf te a else .int
  | .abs _ => .int                       -- `(x)>0?(x):-(x)`: the negation is an `int`
  | .mm _ a b => if typeOf te a = typeOf te b then typeOf te a else .int
  | .toStr _ => .string                  -- `String(x)`

def eval (te : TyEnv) (s : Store) (e : Expr) (m : Mode := .strict) : Except Err Val :=
  match e with
  | .int n => .ok (.int n)
  | .bool b => .ok (.bool b)
  | .str t => .ok (.str t)
  | .var x => match s.get x with | some v => .ok v | none => .error .nameError
  | .bin op a b => do let x ← eval te s a m; let y ← eval te s b m; binopV op x y m
  | .neg a => do let x ← eval te s a m; chk (-x.toInt)
  | .cmp op a b => do let x ← eval te s a m; let y ← eval te s b m; pure (.bool (op.eval x.toInt y.toInt))
  | .and a b => do let x ← eval te s a m; if x.truthy then do let y ← eval te s b m; pure (.bool y.truthy) else pure (.bool false)
  | .or a b => do let x ← eval te s a m; if x.truthy then pure (.bool true) else do let y ← eval te s b m; pure (.bool y.truthy)
  | .not a => do let x ← eval te s a m; pure (.bool (!x.truthy))
  | .ite c a b => do
    let x ← eval te s c m
    let v ← if x.truthy then eval te s a m else eval te s b m
    pure (conv (typeOf te (.ite c a b)) v)
  -- `abs`, `min`, `max` are the Arduino macros `((x)>0?(x):-(x))`, `((a)<(b)?(a):(b))`, `((a)>(b)?(a):(b))`: the chosen operand is
  -- evaluated a second time; expressions of this language are pure, so the second evaluation yields the value of the first
  | .abs a => do let x ← eval te s a m; if x.toInt > 0 then pure (.int x.toInt) else chk (-x.toInt)
  | .mm k a b => do let x ← eval te s a m; let y ← eval te s b m; pure (conv (typeOf te (.mm k a b)) (k.cpick x y))
  -- `String(x)`: the constructor for the static type of `x` (`Val.text`: decimal digits of an int, 1 / 0 of a bool, a copy of a String)
  | .toStr a => do let x ← eval te s a m; pure (.str x.text)

open Py (Flow St)

/-- the arguments of a call, each converted to the declared type of its parameter (C++ leaves the ORDER of evaluation open; the
    expressions of this language have no side effects, so the order only decides which of two failing arguments is reported) -/
def evalArgs (te : TyEnv) (s : Store) (m : Mode) : List (String × Ty) → List Expr → Except Err (List Val)
  | [], [] => .ok []
  | p :: ps, e :: es => do let v ← eval te s e m; let vs ← evalArgs te s m ps es; pure (conv p.2 v :: vs)
  | _, _ => .error .typeError

/-- assignment converts to the declared type of the variable -/
def assignTo (te : TyEnv) (s : Store) (x : String) (v : Val) : Except Err Store :=
  match te.lookup x with
  | some t => .ok (s.set x (conv t v))
  | none => .error .nameError

/-- `T0 __tmp_assign_k = e0; T1 __tmp_assign_(k+1) = e1; …`: each initialiser is evaluated in the store reached so far (the earlier
    temporaries are in scope, with their declared types) and converted to the declared type of its temporary -/
def declTemps (te : TyEnv) (m : Mode) : Nat → List Ty → List Expr → Store → Except Err Store
  | _, [], [], s => .ok s
  | k, t :: ts, e :: es, s => do
    let v ← eval te s e m
    declTemps ((tmpName k, t) :: te) m (k + 1) ts es (s.set (tmpName k) (conv t v))
  | _, _, _, _ => .error .typeError

/-- `x0 = __tmp_assign_k; x1 = __tmp_assign_(k+1); …` -/
def assignTemps (te : TyEnv) : Nat → List String → Store → Except Err Store
  | _, [], s => .ok s
  | k, x :: xs, s => do
    let v ← (match s.get (tmpName k) with | some v => Except.ok v | none => .error .nameError)
    let s' ← assignTo te s x v
    assignTemps te (k + 1) xs s'

/-- the temporaries `__tmp_assign_k … __tmp_assign_(k+n-1)` go out of scope: whatever the flat store held under these names before
    (`old`) is back -/
def dropTemps (old : Store) : Nat → Nat → Store → Store
  | _, 0, s => s
  | k, n + 1, s =>
    dropTemps old (k + 1) n (match old.get (tmpName k) with
      | some v => s.set (tmpName k) v
      | none => s.filter (·.1 ≠ tmpName k))

def exec (te : TyEnv) (fuel : Nat) (stmt : Stmt) (st : St) (m : Mode := .strict) : Except Err St :=
  match fuel with
  | 0 => .error .fuel
  | fuel + 1 =>
    match stmt with
    | .skip => .ok st
    | .seq a b => do
      let st1 ← exec te fuel a st m
      if st1.flow = .broke then pure st1 else exec te fuel b st1 m
    | .assign x e => do
      let v ← eval te st.store e m
      let s' ← assignTo te st.store x v
      pure { st with store := s' }
    | .aug x op e => do
      let cur ← eval te st.store (.var x) m
      let v ← eval te st.store e m
      let r ← binopV op cur v m
      let s' ← assignTo te st.store x r
      pure { st with store := s' }
    | .tuple _ _ _ => .error .typeError          -- not a statement of the sketch
    | .ctuple k ts xs es =>
      -- the temporaries are block-scoped locals.  The store is flat: a temporary that would shadow a declared name (a global or a
      -- `for` variable in scope) is not modelled (`nameError`); the targets are names declared OUTSIDE the statement.  The model
      -- ends the lifetime of the temporaries with the statement (in C++ they are dead until the end of the block; whether a later
      -- statement may still NAME them is `WF.stmtOk`'s block scoping; a sketch that reads one later gets `nameError` here)
      if (List.range ts.length).any (fun j => (te.lookup (tmpName (k + j))).isSome) then .error .nameError
      else if xs.length ≠ ts.length then .error .typeError
      else do
        let s1 ← declTemps te m k ts es st.store
        let s2 ← assignTemps te k xs s1
        pure { st with store := dropTemps st.store k ts.length s2 }
    | .ifs c thn els => do
      let v ← eval te st.store c m
      if v.truthy then exec te fuel thn st m else exec te fuel els st m
    | .whileLoop c body => do
      let v ← eval te st.store c m
      if v.truthy then do
        let st1 ← exec te fuel body st m
        if st1.flow = .broke then pure { st1 with flow := .normal }
        else exec te fuel (.whileLoop c body) st1 m
      else pure st
    | .forRange i n body => do
      -- `for (int i = 0; i < n; ++i) body` : `i` is a fresh block-scoped int shadowing any outer `i`
      let saved := st.store.get i
      let te' : TyEnv := (i, .int) :: te
      let st1 ← forLoop te' fuel i n body { st with store := st.store.set i (.int 0) } m
      let restored : Store := match saved with
        | some v => st1.store.set i v
        | none => st1.store.filter (·.1 ≠ i)
      pure { st1 with store := restored }
    -- `Serial.println(e)`: the overload for the static type of `e` prints `Val.text` (decimal digits / 1, 0 / the characters)
    | .write e => do let v ← eval te st.store e m; pure { st with trace := .write v.text :: st.trace }
    | .sleep e => do
      let v ← eval te st.store e m
      if v.toInt < 0 then .error .negativeDelay else pure { st with trace := .delay v.toInt :: st.trace }
    | .brk => pure { st with flow := .broke }
    | .call x _ ps ls rt body ret args => do
      -- W6: `x = f(args);` / `f(args);` — a fresh frame with the parameters (each argument converted to the parameter's type); the
      -- body runs under the declarations of the function (parameters and locals; a local is in the store from its first
      -- assignment on — its declaration `T x = e;`; the globals of the sketch are NOT visible in this model: `nameError`); the
      -- value of `return e;` converts to the return type, the assignment to `x` to the type of `x`
      let vs ← evalArgs te st.store m ps args
      let st1 ← exec (ps ++ ls) fuel body { store := Store.setAll [] (ps.map (·.1)) vs, trace := st.trace } m
      if st1.flow = .broke then .error .breakOutside
      else match ret, x with
        | none, none => pure { st with trace := st1.trace }
        | none, some _ => .error .typeError                     -- the value of a `void` function: does not compile
        | some e, none => do let _ ← eval (ps ++ ls) st1.store e m; pure { st with trace := st1.trace }
        | some e, some x => do
          let v ← eval (ps ++ ls) st1.store e m
          let s' ← assignTo te st.store x (conv rt v)
          pure { st with store := s', trace := st1.trace }
where
  forLoop (te : TyEnv) (fuel : Nat) (i : String) (n : Expr) (body : Stmt) (st : St) (m : Mode := .strict) : Except Err St :=
    match fuel with
    | 0 => .error .fuel
    | fuel + 1 => do
      let iv ← eval te st.store (.var i) m
      let nv ← eval te st.store n m
      if iv.toInt < nv.toInt then do
        let st1 ← exec te fuel body st m
        if st1.flow = .broke then pure { st1 with flow := .normal }
        else do
          let cur ← eval te st1.store (.var i) m
          let nxt ← chk (cur.toInt + 1)
          forLoop te fuel i n body { st1 with store := st1.store.set i nxt } m
      else pure st

def initGlobals (te : TyEnv) (gl : List (String × Ty × Expr)) (s : Store) (m : Mode := .strict) : Except Err Store :=
  match gl with
  | [] => .ok s
  | (x, t, e) :: rest => do
    let v ← eval te s e m
    initGlobals te rest (s.set x (conv t v)) m

def passes (te : TyEnv) (fuel : Nat) (body : Stmt) (n : Nat) (st : St) (m : Mode := .strict) : Except Err St :=
  match n with
  | 0 => .ok st
  | n + 1 => do
    let st1 ← exec te fuel body st m
    -- a `break` at the top of loop() does not compile; the transpiler never emits one there
    if st1.flow = .broke then .error .breakOutside else passes te fuel body n st1 m

/-- static initialisation, `setup()`, then `loop()` × N -/
def run (c : CProg) (N fuel : Nat) (m : Mode := .strict) : Except Err (List Ev) := do
  let te : TyEnv := c.globals.map fun g => (g.1, g.2.1)
  let s0 ← initGlobals te c.globals [] m
  let st0 ← exec te fuel c.setup { store := s0, trace := [] } m
  if st0.flow = .broke then .error .breakOutside
  else do
    let st ← passes te fuel c.loop N st0 m
    pure st.trace.reverse

end C
end Reduino.Lang
