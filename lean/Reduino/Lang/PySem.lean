import Reduino.Lang.Syntax
/- Python semantics of the source fragment (big-step, fuel-indexed).  W6: a call of a helper runs the carried body in a fresh frame. -/
namespace Reduino.Lang.Py

/-- Python expression evaluation: bools are ints in arithmetic and comparisons (`& | ^` of two bools is a bool), `and`/`or` return an OPERAND,
    `not` returns a bool, evaluation is left to right and short-circuiting.  Strings (W13): `+` concatenates two strings, a string
    operand of any other arithmetic (`Val.num`, `BinOp.pyEval`) is a TypeError, comparisons as `CmpOp.pyEval`. -/
def eval (s : Store) : Expr → Except Err Val
  | .int n => .ok (.int n)
  | .bool b => .ok (.bool b)
  | .str t => .ok (.str t)
  | .var x => match s.get x with | some v => .ok v | none => .error .nameError
  | .bin op a b => do let x ← eval s a; let y ← eval s b; op.pyEval x y
  | .neg a => do let x ← eval s a; let n ← x.num; pure (.int (-n))
  | .cmp op a b => do let x ← eval s a; let y ← eval s b; let r ← op.pyEval x y; pure (.bool r)
  | .and a b => do let x ← eval s a; if x.truthy then eval s b else pure x
  | .or a b => do let x ← eval s a; if x.truthy then pure x else eval s b
  | .not a => do let x ← eval s a; pure (.bool (!x.truthy))
  | .ite c a b => do let x ← eval s c; if x.truthy then eval s a else eval s b
  | .abs a => do let x ← eval s a; let n ← x.num; pure (.int n.natAbs)
  | .mm k a b => do let x ← eval s a; let y ← eval s b; k.pyPick x y
  | .toStr a => do let x ← eval s a; let t ← x.pyStr; pure (.str t)

/-- the right-hand sides of a tuple assignment, left to right, all in the same (old) store -/
def evalList (s : Store) : List Expr → Except Err (List Val)
  | [] => .ok []
  | e :: es => do let v ← eval s e; let vs ← evalList s es; pure (v :: vs)

inductive Flow where | normal | broke
  deriving DecidableEq, Repr

structure St where
  store : Store
  trace : List Ev      -- reversed
  flow : Flow := .normal

/-- what `mon.write(v)` sends: the text `str(v)` — decimal digits for an int, the characters of a string.  Bools are kept out of the
    model (`True`/`False` under CPython, 1/0 on the device): reported as `typeError`, so no theorem speaks about such a run -/
def writeEv (v : Val) : Except Err Ev :=
  match v with
  | .int n => .ok (.write (toString n))
  | .str s => .ok (.write s)
  | .bool _ => .error .typeError

def exec : Nat → Stmt → St → Except Err St
  | 0, _, _ => .error .fuel
  | fuel + 1, stmt, st =>
    match stmt with
    | .skip => .ok st
    | .seq a b => do
      let st1 ← exec fuel a st
      if st1.flow = .broke then pure st1 else exec fuel b st1
    | .assign x e => do let v ← eval st.store e; pure { st with store := st.store.set x v }
    | .aug x op e => do
      let cur ← eval st.store (.var x)
      let v ← eval st.store e
      let r ← op.pyEval cur v
      pure { st with store := st.store.set x r }
    | .tuple _ xs es => do
      -- all right-hand sides first (old store), then the targets are bound left to right; unpacking into a target list of
      -- another length raises ValueError (the transpiler refuses such a line), reported as `typeError`
      let vs ← evalList st.store es
      if xs.length = es.length then pure { st with store := st.store.setAll xs vs } else .error .typeError
    | .ctuple _ _ _ _ => .error .typeError       -- not a statement of the source language
    | .ifs c thn els => do
      let v ← eval st.store c
      if v.truthy then exec fuel thn st else exec fuel els st
    | .whileLoop c body => do
      let v ← eval st.store c
      if v.truthy then do
        let st1 ← exec fuel body st
        if st1.flow = .broke then pure { st1 with flow := .normal }
        else exec fuel (.whileLoop c body) st1
      else pure st
    | .forRange i n body => do
      let nv ← eval st.store n
      let k ← nv.num                  -- `range("a")` is a TypeError
      forLoop fuel i k 0 body st
    | .write e => do let v ← eval st.store e; let ev ← writeEv v; pure { st with trace := ev :: st.trace }
    | .sleep e => do
      let v ← eval st.store e
      let ms ← v.num                  -- `sleep("a")` is a TypeError
      if ms < 0 then .error .negativeDelay else pure { st with trace := .delay ms :: st.trace }
    | .brk => pure { st with flow := .broke }
    | .call x _ ps _ _ body ret args => do
      -- W6: the arguments left to right in the caller's store; a fresh frame holding the parameters (the body of a helper of this
      -- model names its parameters and locals only: a module-level name is a `nameError` here); the body, its events appended to
      -- the caller's; the value of the trailing `return`, bound to `x` in the caller's store.  `x = f(…)` with a procedure `f`
      -- would bind `None`: not modelled (`typeError`).  A wrong number of arguments is Python's TypeError.
      let vs ← evalList st.store args
      if ps.length ≠ args.length then .error .typeError
      else do
        let st1 ← exec fuel body { store := Store.setAll [] (ps.map (·.1)) vs, trace := st.trace }
        if st1.flow = .broke then .error .breakOutside       -- `break` outside a loop of the body: a SyntaxError
        else match ret, x with
          | none, none => pure { st with trace := st1.trace }
          | none, some _ => .error .typeError
          | some e, none => do let _ ← eval st1.store e; pure { st with trace := st1.trace }
          | some e, some x => do let v ← eval st1.store e; pure { st with store := st.store.set x v, trace := st1.trace }
where
  /-- `for i in range(n)`: `n` was evaluated once; `i` is (re)bound from the iterator at every iteration -/
  forLoop : Nat → String → Int → Int → Stmt → St → Except Err St
    | 0, _, _, _, _, _ => .error .fuel
    | fuel + 1, i, n, k, body, st =>
      if k < n then do
        let st1 ← exec fuel body { st with store := st.store.set i (.int k) }
        if st1.flow = .broke then pure { st1 with flow := .normal }
        else forLoop fuel i n (k + 1) body st1
      else pure st

/-- the main-loop body `passes` times; a `break` reaching the main loop is rejected by the transpiler, so here it
    would end the Python program: reported as `breakOutside` -/
def passes (fuel : Nat) (body : Stmt) : Nat → St → Except Err St
  | 0, st => .ok st
  | n + 1, st => do
    let st1 ← exec fuel body st
    if st1.flow = .broke then .error .breakOutside else passes fuel body n st1

/-- run the prologue once and then `N` passes of the main loop; the observable trace in order -/
def run (p : Prog) (N fuel : Nat) : Except Err (List Ev) := do
  let st0 ← exec fuel p.pre { store := [], trace := [] }
  if st0.flow = .broke then .error .breakOutside
  else match p.body with
    | none => pure st0.trace.reverse
    | some b => do let st ← passes fuel b N st0; pure st.trace.reverse

end Reduino.Lang.Py
