import Reduino.Lang.Types
/-
  TypesFun — user-defined helper functions in the type-assignment layer (parser.py: `_parse_function`,
  `_ensure_function_variant`, `_resolve_signature_alias`, the `Call` case of `_infer_expr_type`, `_merge_return_types`;
  emitter.py: one prototype + one definition per kept variant, `return e;` with C++'s implicit conversion to the result type).

  A helper in STRUCTURED FORM: a straight-line body of assignments to parameters / locals, then ONE of the return expressions
  `rets` is executed — which one is the execution's choice (the "path" abstraction of Types.lean: any of them may be; the real
  scripts write `if c: return r₀ … return rₙ` after the body).  Non-recursive, no globals, no calls of other helpers.

  What the real code does (measured, not the sketch one would expect):
  * a call `f(a₁ … aₙ)` requests the signature `sig = (infer a₁, …, infer aₙ)` — exact types, a bool argument requests a `bool`
    parameter, literals count by their own type (`f(2.5)` requests float: the K06c overload ambiguity is about that);
  * the body is parsed with the parameters typed by the requested signature; every assignment re-types `var_types` (`declStep`);
    a local is DECLARED with the type of its first assignment; a PARAMETER is declared with the type `var_types` holds for it
    when the body has been parsed (`resolved_label = child_ctx["var_types"].get(param)`): the type of the LAST assignment to it,
    wider or narrower than the requested one (`paramTypes`);
  * each `return e` records `infer var_types e` at that point (structured form: after the body); the result type is `mergeReturn`
    of those; the definition is stored under the RESOLVED signature (`paramTypes`), a differing requested one becomes an alias;
  * the definition-time parse (no call seen yet) uses the all-int signature (`primary`); a request whose signature already names
    a stored definition re-uses it WITHOUT re-parsing: a helper whose body widens its int parameters to the requested types is
    served by the body parsed under all-int (`parseSig`; single call signature per helper — with several, the stored body is the
    one parsed for the latest non-resolved request, which this model does not follow).
-/
namespace Reduino.Lang.Ty2

structure Fun (α : Type) where
  params : List String
  body : List (Stmt α)
  rets : List (E α)

section typing
variable {α : Type}

/-- the declaration pass continued from a given state (`declare p = declareFrom {} p`) -/
def declareFrom (env : Env) (p : List (Stmt α)) : Env := p.foldl declStep env

/-- the parse of the body for the REQUESTED signature `ps`: parameters are declared names typed by the request -/
def Fun.parsed (f : Fun α) (ps : List T) : Env :=
  declareFrom { decl := f.params.zip ps, cur := f.params.zip ps } f.body

/-- resolved parameter types: what `var_types` holds for each parameter after the body -/
def Fun.paramTypes (f : Fun α) (ps : List T) : List T := f.params.map (f.parsed ps).cur.get

/-- the C++ types of the emitted definition: parameters with their resolved types, locals with their first-assignment types -/
def Fun.tenv (f : Fun α) (ps : List T) : TEnv :=
  (f.parsed ps).decl.map fun d => (d.1, if f.params.contains d.1 then (f.parsed ps).cur.get d.1 else d.2)

def Fun.localTypes (f : Fun α) (ps : List T) : TEnv := (f.tenv ps).filter fun d => !f.params.contains d.1

/-- the types recorded by the `return` statements -/
def Fun.retTypes (f : Fun α) (ps : List T) : List T := f.rets.map (infer (f.parsed ps).cur)

/-- `_merge_return_types`; `none` = ValueError("conflicting return types") -/
def Fun.retType (f : Fun α) (ps : List T) : Option T := mergeReturn (f.retTypes ps)

/-- the definition-time signature: un-annotated parameters are int -/
def Fun.primary (f : Fun α) : List T := f.params.map fun _ => T.int

/-- which parse serves a call with argument types `sig` (one call signature per helper): the definition-time parse if ITS resolved
    signature is `sig` (the stored definition is found and re-used), the parse requested for `sig` otherwise -/
def Fun.parseSig (f : Fun α) (sig : List T) : List T := if f.paramTypes f.primary = sig then f.primary else sig

/-- the body never assigns a parameter -/
def Fun.ParamsKept (f : Fun α) : Prop := ∀ st ∈ f.body, st.1 ∉ f.params

end typing

section sem
variable {α : Type} [Num α] [Add α] [Sub α] [Mul α] [Div α] [Neg α] [LT α] [LE α] [DecidableLT α] [DecidableLE α]

/-- Python: parameters bound to the argument VALUES (evaluated in the caller's store) -/
def bindPy (s : Store α) : List String → List (E α) → Option (Store α)
  | [], [] => some []
  | x :: xs, a :: as => (eval s a).bind fun v => (bindPy s xs as).map fun st => (x, v) :: st
  | _, _ => none

/-- C++: arguments evaluated by the caller (typing `gc`), converted to the declared parameter types `g` -/
def bindC (gc : TEnv) (c : Store α) (g : TEnv) : List String → List (E α) → Option (Store α)
  | [], [] => some []
  | x :: xs, a :: as =>
    match g.lookup x, evalC gc c a with
    | some t, some w => (conv t w).bind fun w' => (bindC gc c g xs as).map fun st => (x, w') :: st
    | _, _ => none
  | _, _ => none

/-- Python call: bind, run the body, the value of the return expression the execution reaches -/
def Fun.callPy (f : Fun α) (s : Store α) (args : List (E α)) (r : E α) : Option (V α) :=
  (bindPy s f.params args).bind fun s0 => (pyRun s0 f.body).bind fun s1 => eval s1 r

/-- C++ call of the definition parsed for `ps`: arguments converted to the parameter types, the body with the definition's
    declared types, the returned value converted to the result type.  `none` also when no definition is emitted (`retType = none`) -/
def Fun.callCWith (f : Fun α) (ps : List T) (gc : TEnv) (c : Store α) (args : List (E α)) (r : E α) : Option (V α) :=
  match f.retType ps with
  | none => none
  | some rt =>
    (bindC gc c (f.tenv ps) f.params args).bind fun c0 =>
      (cRun (f.tenv ps) c0 f.body).bind fun c1 => (evalC (f.tenv ps) c1 r).bind (conv rt)

/-- the call as the firmware executes it: the variant serving the argument types at the call site -/
def Fun.callC (f : Fun α) (gc : TEnv) (c : Store α) (args : List (E α)) (r : E α) : Option (V α) :=
  f.callCWith (f.parseSig (args.map (infer gc))) gc c args r

/-- the type `_infer_expr_type` gives the call expression: the result type of the variant -/
def Fun.callType (f : Fun α) (gc : TEnv) (args : List (E α)) : Option T := f.retType (f.parseSig (args.map (infer gc)))

/-- the definition parsed for `ps`, called with arguments of types `sig`, is type-stable: no argument is narrowed into its parameter,
    every assignment of the body is tame and assigns the declared type of its name, every return expression is tame and
    `var_types` at the return agrees with the declared types on it -/
def FunStable (f : Fun α) (ps sig : List T) : Prop :=
  (∀ p ∈ f.params.zip sig, ((f.tenv ps).lookup p.1).any (fun t => sub p.2 t) = true) ∧
  (∀ st ∈ f.body, Tame (f.tenv ps) st.2 = true ∧ (f.tenv ps).lookup st.1 = some (infer (f.tenv ps) st.2)) ∧
  (∀ r ∈ f.rets, Tame (f.tenv ps) r = true ∧ infer (f.parsed ps).cur r = infer (f.tenv ps) r)

instance (f : Fun α) (ps sig : List T) : Decidable (FunStable f ps sig) := by unfold FunStable; infer_instance

end sem
end Reduino.Lang.Ty2
