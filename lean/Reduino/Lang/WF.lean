import Reduino.Lang.Render
import Reduino.Lang.InF
/-
  Well-formedness of the emitted sketch (what `g++ -fsyntax-only` decides for this fragment): every identifier is
  declared before use in an enclosing scope, global names are distinct, a block declares a local (the temporaries of tuple
  assignments, W5) at most once, `break` only inside a loop; and the shape of the
  rendered text: one `setup`, one `loop`, balanced braces.
  Source side: `Closed` — the script reads a name only after a top-level assignment to it, or inside the `for` that
  binds it (what a Python programmer gets from "no NameError on any path" in the simplest syntactic form).
-/
namespace Reduino.Lang

namespace WF

def exprOk (sc : List String) (e : Expr) : Bool := e.vars.all (fun x => sc.contains x)

/-- numbers of the temporaries a statement declares in the block it sits in (not in a nested block); for a source statement: the
    temporaries its translation will declare there -/
def blockTmps : Stmt → List Nat
  | .seq a b => blockTmps a ++ blockTmps b
  | .tuple k _ es => (List.range es.length).map (k + ·)
  | .ctuple k ts _ _ => (List.range ts.length).map (k + ·)
  | _ => []

/-- the locals a statement leaves declared for the statements after it in the same block -/
def blockDecls (s : Stmt) : List String := (blockTmps s).map tmpName

/-- initialisers of the temporaries, one after the other: each sees the earlier temporaries -/
def tmpInitsOk : List String → Nat → List Ty → List Expr → Bool
  | _, _, [], [] => true
  | sc, k, _ :: ts, e :: es => exprOk sc e && tmpInitsOk (tmpName k :: sc) (k + 1) ts es
  | _, _, _, _ => false

/-- a block (`if`/`else` branch, loop body) declares a local name at most once; shadowing a name of an enclosing scope is legal C++;
    the body of `for (int i …) {…}` shares its scope with `i` -/
def declsOk : Stmt → Bool
  | .seq a b => declsOk a && declsOk b
  | .ifs _ t e => declsOk t && declsOk e && (blockDecls t).Nodup && (blockDecls e).Nodup
  | .whileLoop _ b => declsOk b && (blockDecls b).Nodup
  | .forRange i _ b => declsOk b && (blockDecls b).Nodup && !(blockDecls b).contains i
  | _ => true

/-- statement of the sketch in scope `sc`; `inLoop` = lexically inside a C++ loop; the locals declared by a statement are in scope
    for the statements after it in the same block -/
def stmtOk (sc : List String) (inLoop : Bool) : Stmt → Bool
  | .skip => true
  | .seq a b => stmtOk sc inLoop a && stmtOk (blockDecls a ++ sc) inLoop b
  | .assign x e => sc.contains x && exprOk sc e
  | .aug x _ e => sc.contains x && exprOk sc e
  | .tuple _ _ _ => false
  | .ctuple k ts xs es =>
    tmpInitsOk sc k ts es && xs.length == ts.length && xs.all (fun x => (blockDecls (.ctuple k ts xs es) ++ sc).contains x)
  | .ifs c t e => exprOk sc c && stmtOk sc inLoop t && stmtOk sc inLoop e
  | .whileLoop c b => exprOk sc c && stmtOk sc true b
  | .forRange i n b => exprOk (i :: sc) n && stmtOk (i :: sc) true b     -- `for (int i = 0; i < n; ++i) {…}`
  | .write e => exprOk sc e
  | .sleep e => exprOk sc e
  | .brk => inLoop
  -- W6, increment 1: a sketch with calls is not yet covered by `wf` (scope of a function body, prototypes before use)
  | .call _ _ _ _ _ _ _ _ => false

/-- globals in order: a fresh name each, initialiser over the earlier ones -/
def globalsOk : List String → List (String × Ty × Expr) → Bool
  | _, [] => true
  | sc, (x, _, e) :: rest => !sc.contains x && exprOk sc e && globalsOk (x :: sc) rest

def wf (c : CProg) : Bool :=
  let names := c.globals.map (·.1)
  globalsOk [] c.globals && stmtOk names false c.setup && stmtOk names false c.loop &&
    declsOk c.setup && (blockDecls c.setup).Nodup && declsOk c.loop && (blockDecls c.loop).Nodup

/-! ### source side -/

/-- a nested statement is valid Python as far as names and `break` go: reads are in scope, `break` sits inside a loop
    (`inLoop`; Python rejects the script with a SyntaxError otherwise) -/
def readsOk (sc : List String) (inLoop : Bool) : Stmt → Bool
  | .skip => true
  | .seq a b => readsOk sc inLoop a && readsOk sc inLoop b
  | .assign _ e => exprOk sc e
  | .aug x _ e => sc.contains x && exprOk sc e
  | .tuple _ _ es => es.all (exprOk sc)
  | .ctuple _ _ _ _ => false
  | .ifs c t e => exprOk sc c && readsOk sc inLoop t && readsOk sc inLoop e
  | .whileLoop c b => exprOk sc c && readsOk sc true b
  | .forRange i n b => exprOk sc n && readsOk (i :: sc) true b && !(blockDecls b).contains i   -- `i` is not a reserved temporary of its own body
  | .write e => exprOk sc e
  | .sleep e => exprOk sc e
  | .brk => inLoop
  | .call _ _ _ _ _ _ _ _ => false          -- W6, increment 1: `Closed` keeps scripts with calls out (`tr_wf` does not speak about them)

/-- top-level prologue: an assignment brings its target into scope for what follows -/
def topReads (sc : List String) : Stmt → Option (List String)
  | .skip => some sc
  | .seq a b => (topReads sc a).bind fun sc1 => topReads sc1 b
  | .assign x e => if exprOk sc e then some (if sc.contains x then sc else x :: sc) else none
  | s => if readsOk sc false s then some sc else none

def Closed (p : Prog) : Bool :=
  match topReads [] p.pre with
  | none => false
  | some sc => match p.body with
    | none => true
    | some b => readsOk sc true b      -- the body of `while True:`

/-! ### shape of the rendered text -/

def opens (l : String) : Bool := l.endsWith "{"
def closes (l : String) : Bool := l.startsWith "}"

/-- brace depth after the lines, `none` if it ever goes negative -/
def depthAfter : Nat → List String → Option Nat
  | d, [] => some d
  | d, l :: rest =>
    if closes l then
      match d with
      | 0 => none
      | d' + 1 => depthAfter (if opens l then d' + 1 else d') rest
    else depthAfter (if opens l then d + 1 else d) rest

def Balanced (ls : List String) : Bool := depthAfter 0 ls == some 0

end WF
end Reduino.Lang

namespace Reduino.Lang
/-! ### rendered lines with their brace kind (`flat`, `open_` ends with `{`, `close` is `}`, `closeOpen` would be `} else {` — never produced) -/
inductive LK where | flat | open_ | close
  deriving DecidableEq, Repr

def Stmt.klines : Stmt → List (LK × String)
  | .skip => []
  | .seq a b => a.klines ++ b.klines
  | .assign x e => [(.flat, s!"{x} = {e.c};")]
  | .aug x op e => [(.flat, s!"{x} = ({x} {op.sym} {e.c});")]
  | .tuple _ _ _ => []
  | .ctuple k ts xs es => (tmpDeclLines k ts es ++ tmpAssignLines k xs).map fun l => (.flat, l)
  | .ifs c t e =>
    [(.open_, s!"if ({c.c}) \{")] ++ t.klines ++ [(.close, "}")] ++
      (match e with
       | .skip => []
       | .ifs c2 t2 e2 =>
         match (Stmt.ifs c2 t2 e2).klines with
         | (k, first) :: rest => (k, "else " ++ first) :: rest
         | [] => []
       | other => [(.open_, "else {")] ++ other.klines ++ [(.close, "}")])
  | .whileLoop c b => [(.open_, s!"while ({c.c}) \{")] ++ b.klines ++ [(.close, "}")]
  | .forRange i n b => [(.open_, s!"for (int {i} = 0; {i} < {n.c}; ++{i}) \{")] ++ b.klines ++ [(.close, "}")]
  | .write e => [(.flat, s!"Serial.println({e.c});")]
  | .sleep e => [(.flat, s!"delay({e.c});")]
  | .brk => [(.flat, "break;")]
  | .call x f _ _ _ _ _ args => [(.flat, callLine x f args)]

/-- W6: `Stmt.flines` with brace kinds -/
def Stmt.fklines (ls : C.TyEnv) : List String → Stmt → List (LK × String) × List String
  | dcl, .seq a b =>
    let r1 := a.fklines ls dcl
    let r2 := b.fklines ls r1.2
    (r1.1 ++ r2.1, r2.2)
  | dcl, .assign x e =>
    match ls.lookup x with
    | some t => if dcl.contains x then ([(.flat, s!"{x} = {e.c};")], dcl) else ([(.flat, s!"{t.c} {x} = {e.c};")], x :: dcl)
    | none => ([(.flat, s!"{x} = {e.c};")], dcl)
  | dcl, s => (s.klines, dcl)

def Helper.defKLines (h : Helper) : List (LK × String) :=
  [(.open_, h.sig ++ " {")] ++ (h.body.fklines h.ls []).1 ++ h.retLines.map (fun l => (LK.flat, l)) ++ [(.close, "}")]

def helperKLines (hs : List Helper) : List (LK × String) :=
  (if 1 < hs.length then hs.map (fun h => (LK.flat, h.sig ++ ";")) else []) ++ hs.flatMap Helper.defKLines

inductive Sec where | incl | glob | setupOpen | loopOpen | body
  deriving DecidableEq, Repr

/-- the whole sketch, each line tagged with the section marker it plays and its brace kind -/
def CProg.klines (c : CProg) : List (Sec × LK × String) :=
  [(.incl, .flat, "#include <Arduino.h>")] ++
  c.globals.map (fun g => (Sec.glob, LK.flat, s!"{g.2.1.c} {g.1} = {g.2.2.c};")) ++
  (helperKLines c.helpers).map (fun l => (Sec.body, l)) ++
  [(.setupOpen, .open_, "void setup() {"), (.body, .flat, "Serial.begin(9600);")] ++ c.setup.klines.map (fun l => (Sec.body, l)) ++ [(.body, .close, "}")] ++
  [(.loopOpen, .open_, "void loop() {")] ++ c.loop.klines.map (fun l => (Sec.body, l)) ++ [(.body, .close, "}")]

/-- brace depth over kinds; `none` if it goes negative -/
def kdepth : Nat → List LK → Option Nat
  | d, [] => some d
  | d, .flat :: r => kdepth d r
  | d, .open_ :: r => kdepth (d + 1) r
  | 0, .close :: _ => none
  | d + 1, .close :: r => kdepth d r

end Reduino.Lang
