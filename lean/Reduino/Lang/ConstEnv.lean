/-
  ConstEnv — the transpile-time constant environment (`ctx["vars"]`) and the sites that read it.

  Values the environment tracks for folding `len(name)`, `flash_pattern(name)`, `glyph(slot, name)`: strings and lists of ints.
  What the parser does (parser.py):
    * an assignment of a transpile-time constant records the value; any other assignment records the unknown marker (`_ExprStr`);
    * `xs.append(v)` / `xs.remove(v)` MUTATE the recorded list object in place;
    * the body of an `if`/`elif`/`else` branch, a `while`/`for` loop and the `while True:` loop is parsed in a shallow COPY of the
      environment (`dict(vars)`): rebinding a name inside the block is forgotten when the block closes, but a recorded list is shared by
      reference, so in-place mutations made while parsing the block stay — once, however often (or never) the block runs;
    * a fold site whose name is known is replaced by the recorded value, otherwise it is emitted as a run-time read.
  Source programs and emitted programs are the same trees; executions are driven by a list of choices (which branch of a chain,
  how many iterations of a loop) consumed identically by both, so their observation traces can be compared path by path.
-/
namespace Reduino.Lang.CE

inductive Val where
  | str (s : String)
  | list (xs : List Int)
  deriving DecidableEq, Repr

def Val.len : Val → Nat
  | .str s => s.length
  | .list xs => xs.length

inductive Node where
  | bind (x : String) (v : Val)            -- `x = <constant>`
  | bindDyn (x : String) (v : Val)         -- `x = <expression the transpiler cannot evaluate>`; `v` is the value it has at run time
  | append (x : String) (n : Int)
  | remove (x : String) (n : Int)
  | obs (x : String)                       -- a fold site reading `x` (len / flash_pattern / glyph): observes the value
  | obsConst (v : Val)                     -- emitted programs only: the folded value
  | branches (bs : List (List Node))
  | loop (body : List Node)
  | mainLoop (body : List Node)
  deriving Repr

/-! ### the parser: environment with shared list objects -/

inductive Bound where
  | str (s : String)
  | ref (r : Nat)          -- a recorded list object
  | unknown
  deriving DecidableEq, Repr

structure PState where
  env : List (String × Bound) := []
  heap : List (List Int) := []           -- list objects by index; never copied

def PState.bindStr (p : PState) (x : String) (b : Bound) : PState := { p with env := (x, b) :: p.env.filter (·.1 ≠ x) }

def PState.known (p : PState) (x : String) : Option Val :=
  match p.env.lookup x with
  | some (.str s) => some (.str s)
  | some (.ref r) => (p.heap[r]?).map .list
  | _ => none

def removeFirst (n : Int) : List Int → List Int
  | [] => []
  | a :: rest => if a = n then rest else a :: removeFirst n rest

mutual
def foldNode (p : PState) : Node → PState × Node
  | .bind x (.str s) => (p.bindStr x (.str s), .bind x (.str s))
  | .bind x (.list xs) => ({ (p.bindStr x (.ref p.heap.length)) with heap := p.heap ++ [xs] }, .bind x (.list xs))
  | .bindDyn x v => (p.bindStr x .unknown, .bindDyn x v)
  | .append x n =>
    match p.env.lookup x with
    | some (.ref r) => ({ p with heap := p.heap.set r ((p.heap[r]?.getD []) ++ [n]) }, .append x n)
    | _ => (p.bindStr x .unknown, .append x n)
  | .remove x n =>
    match p.env.lookup x with
    | some (.ref r) => ({ p with heap := p.heap.set r (removeFirst n (p.heap[r]?.getD [])) }, .remove x n)
    | _ => (p.bindStr x .unknown, .remove x n)
  | .obs x =>
    match p.known x with
    | some v => (p, .obsConst v)
    | none => (p, .obs x)
  | .obsConst v => (p, .obsConst v)
  | .branches bs => let r := foldBranches p bs; ({ p with heap := r.1 }, .branches r.2)
  | .loop body => let r := foldList p body; ({ p with heap := r.1.heap }, .loop r.2)
  | .mainLoop body => let r := foldList p body; ({ p with heap := r.1.heap }, .mainLoop r.2)

def foldList (p : PState) : List Node → PState × List Node
  | [] => (p, [])
  | n :: rest =>
    let r := foldNode p n
    let r2 := foldList r.1 rest
    (r2.1, r.2 :: r2.2)

/-- every branch starts from the environment at the `if`, with the heap as the previous branches left it -/
def foldBranches (p : PState) : List (List Node) → List (List Int) × List (List Node)
  | [] => (p.heap, [])
  | b :: rest =>
    let r := foldList p b
    let r2 := foldBranches { p with heap := r.1.heap } rest
    (r2.1, r.2 :: r2.2)
end

def transpile (prog : List Node) : List Node := (foldList {} prog).2

/-! ### executions -/

abbrev Store := List (String × Val)
def Store.set (s : Store) (x : String) (v : Val) : Store := (x, v) :: s.filter (·.1 ≠ x)

structure RState where
  store : Store := []
  trace : List Val := []        -- reversed
  choices : List Nat := []

mutual
/-- `none`: a Python exception (unbound name, append to a str, remove of an absent element) or the choices ran out -/
def execNode (fuel : Nat) (st : RState) : Node → Option RState
  | .bind x v => some { st with store := st.store.set x v }
  | .bindDyn x v => some { st with store := st.store.set x v }
  | .append x n =>
    match st.store.lookup x with
    | some (.list xs) => some { st with store := st.store.set x (.list (xs ++ [n])) }
    | _ => none
  | .remove x n =>
    match st.store.lookup x with
    | some (.list xs) => if n ∈ xs then some { st with store := st.store.set x (.list (removeFirst n xs)) } else none
    | _ => none
  | .obs x => (st.store.lookup x).map fun v => { st with trace := v :: st.trace }
  | .obsConst v => some { st with trace := v :: st.trace }
  | .branches bs =>
    match st.choices with
    | [] => none
    | c :: cs =>
      match fuel with
      | 0 => none
      | fuel + 1 =>
        match bs[c]? with
        | some b => execList fuel { st with choices := cs } b
        | none => some { st with choices := cs }          -- no branch taken
  | .loop body =>
    match st.choices with
    | [] => none
    | c :: cs =>
      match fuel with
      | 0 => none
      | fuel + 1 => execTimes fuel c { st with choices := cs } body
  | .mainLoop body =>
    match st.choices with
    | [] => none
    | c :: cs =>
      match fuel with
      | 0 => none
      | fuel + 1 => execTimes fuel c { st with choices := cs } body

def execList (fuel : Nat) (st : RState) : List Node → Option RState
  | [] => some st
  | n :: rest =>
    match execNode fuel st n with
    | some st' => execList fuel st' rest
    | none => none

def execTimes (fuel : Nat) : Nat → RState → List Node → Option RState
  | 0, st, _ => some st
  | k + 1, st, body =>
    match fuel with
    | 0 => none
    | fuel + 1 =>
      match execList fuel st body with
      | some st' => execTimes fuel k st' body
      | none => none
end

/-- the observations of one execution (`none` if it raises or is cut short) -/
def run (fuel : Nat) (choices : List Nat) (prog : List Node) : Option (List Val) :=
  (execList fuel { choices := choices } prog).map fun st => st.trace.reverse

/-! ### where folding is safe -/

mutual
def writesNode : Node → List String
  | .bind x _ => [x]
  | .bindDyn x _ => [x]
  | .append x _ => [x]
  | .remove x _ => [x]
  | .obs _ => []
  | .obsConst _ => []
  | .branches bs => writesBranches bs
  | .loop body => writesList body
  | .mainLoop body => writesList body
def writesList : List Node → List String
  | [] => []
  | n :: rest => writesNode n ++ writesList rest
def writesBranches : List (List Node) → List String
  | [] => []
  | b :: rest => writesList b ++ writesBranches rest
end

mutual
def readsNode : Node → List String
  | .obs x => [x]
  | .branches bs => readsBranches bs
  | .loop body => readsList body
  | .mainLoop body => readsList body
  | _ => []
def readsList : List Node → List String
  | [] => []
  | n :: rest => readsNode n ++ readsList rest
def readsBranches : List (List Node) → List String
  | [] => []
  | b :: rest => readsList b ++ readsBranches rest
end

/-- names written inside some nested block of the program -/
def nestedWrites : List Node → List String
  | [] => []
  | .branches bs :: rest => writesBranches bs ++ nestedWrites rest
  | .loop body :: rest => writesList body ++ nestedWrites rest
  | .mainLoop body :: rest => writesList body ++ nestedWrites rest
  | _ :: rest => nestedWrites rest

/-- every name a fold site reads is only ever written by top-level statements of the script -/
def FoldSafe (prog : List Node) : Bool := (readsList prog).all fun x => !(nestedWrites prog).contains x

/-! ### function bodies -/

/-- `def f(params): body` is parsed in a copy of the environment in which every parameter is the unknown marker
    (`child_ctx["vars"][arg] = _ExprStr(arg)`), whatever a module-level name of the same spelling is bound to -/
def enterFunction (p : PState) (params : List String) : PState :=
  params.foldl (fun q x => q.bindStr x .unknown) p

def foldFunction (p : PState) (params : List String) (body : List Node) : List Node :=
  (foldList (enterFunction p params) body).2

mutual
/-- number of run-time reads of `x` (fold sites left as `.obs x`) -/
def countObsNode (x : String) : Node → Nat
  | .obs y => if y = x then 1 else 0
  | .branches bs => countObsBranches x bs
  | .loop body => countObsList x body
  | .mainLoop body => countObsList x body
  | _ => 0
def countObsList (x : String) : List Node → Nat
  | [] => 0
  | n :: rest => countObsNode x n + countObsList x rest
def countObsBranches (x : String) : List (List Node) → Nat
  | [] => 0
  | b :: rest => countObsList x b + countObsBranches x rest
end

end Reduino.Lang.CE
