import Reduino.Lang.Tr
import Reduino.Lang.InF
import Reduino.Lang.Promote
/-
  `tr2` — `tr` extended with PROMOTION: a name first assigned directly inside the body of a top-level `if`/`elif`/`else` branch or of a
  top-level `while`/`for` loop of the prologue is hoisted to a global with the default initialiser of its type; the declaration in the
  block becomes a plain assignment (`_promote_branch_decls`, the loop promotion of `_parse_simple_lines`, `_make_promotion_decls`,
  `_rewrite_nodes`).  Each branch of a chain is translated from the SAME declarations (those known at the `if`); inside a block a new
  name is visible to the statements after its first assignment; after the block all promoted names are declared.
  Order of the hoisted globals: per branch in sorted order, branches in source order (if-chains); first-assignment order (loops).
  First assignments deeper than that (a block inside a block) stay outside the fragment: the real parser promotes them twice and
  resets the variable inside the enclosing loop body (known finding K01k).
-/
namespace Reduino.Lang

/-- body of a block that sits directly under the top level of the prologue: statements of the block's own statement list may
    introduce names; anything nested deeper is translated by `trNested` (no new names there) -/
def trBody2 (te : C.TyEnv) : Stmt → Except TrErr (Stmt × C.TyEnv)
  | .skip => .ok (.skip, te)
  | .seq a b => do
    let r1 ← trBody2 te a
    let r2 ← trBody2 r1.2 b
    pure (.seq r1.1 r2.1, r2.2)
  | .assign x e =>
    match te.lookup x with
    | some _ => .ok (.assign x e, te)
    | none => .ok (.assign x e, te ++ [(x, inferTy te e)])
  | s => do
    let s' ← trNested te false 1 s
    pure (s', te)

/-- names of `te'` that `te` does not declare, in `te'` order -/
def newDecls (te te' : C.TyEnv) : C.TyEnv := te'.filter fun d => (te.lookup d.1).isNone

def sortDecls (ds : C.TyEnv) : C.TyEnv :=
  (Promote.sorted (ds.map (·.1))).filterMap fun x => (ds.lookup x).map fun t => (x, t)

/-- an if / elif / else chain: every branch from the same `te`; returns the translated chain and the promoted declarations -/
def trChain2 (te : C.TyEnv) : Stmt → Except TrErr (Stmt × C.TyEnv)
  | .ifs c t e => do
    let rt ← trBody2 te t
    let promT := sortDecls (newDecls te rt.2)
    match e with
    | .skip => pure (.ifs c rt.1 .skip, promT)
    | .ifs c2 t2 e2 => do
      let re ← trChain2 te (.ifs c2 t2 e2)
      pure (.ifs c rt.1 re.1, promT ++ re.2.filter fun d => (promT.lookup d.1).isNone)
    | other => do
      let re ← trBody2 te other
      let promE := sortDecls (newDecls te re.2)
      pure (.ifs c rt.1 re.1, promT ++ promE.filter fun d => (promT.lookup d.1).isNone)
  | s => do let s' ← trNested te false 0 s; pure (s', [])

def addPromoted (acc : TopAcc) (prom : C.TyEnv) : TopAcc :=
  { acc with globals := (prom.map fun d => (d.1, d.2, defaultOf d.2)).reverse ++ acc.globals, te := acc.te ++ prom }

/-- top-level statements of the prologue, in order -/
def trTop2 (acc : TopAcc) : Stmt → Except TrErr TopAcc
  | .skip => .ok acc
  | .seq a b => do let acc1 ← trTop2 acc a; trTop2 acc1 b
  | .assign x e => trTop acc (.assign x e)
  | .ifs c t e => do
    let r ← trChain2 acc.te (.ifs c t e)
    pure { (addPromoted acc r.2) with setup := r.1 :: acc.setup }
  | .whileLoop c b => do
    let r ← trBody2 acc.te b
    pure { (addPromoted acc (newDecls acc.te r.2)) with setup := .whileLoop c r.1 :: acc.setup }
  | .forRange i n b =>
    if (acc.te.lookup i).isSome then .error .outsideFragment
    else do
      let r ← trBody2 ((i, .int) :: acc.te) b
      pure { (addPromoted acc (newDecls ((i, .int) :: acc.te) r.2)) with setup := .forRange i (foldArg n) r.1 :: acc.setup }
  | s => do
    let s' ← trNested acc.te false 0 s
    pure { acc with setup := s' :: acc.setup }

def tr2Core (p : Prog) : Except TrErr CProg := do
  let acc ← trTop2 {} p.pre
  let loop ← match p.body with
    | none => pure Stmt.skip
    | some b => trNested acc.te true 0 b
  pure { globals := acc.globals.reverse, setup := seqOf acc.setup.reverse, loop := loop }

def tr2 (p : Prog) : Except TrErr CProg := if p.numbered then withHelpers p (tr2Core p) else .error .outsideFragment

theorem tr2_ok {p : Prog} {c : CProg} (h : tr2 p = .ok c) :
    p.numbered = true ∧ ∃ c0 hs, tr2Core p = .ok c0 ∧ c = { c0 with helpers := hs } := by
  unfold tr2 at h
  split at h
  · exact ⟨‹_›, withHelpers_ok h⟩
  · cases h

/-! ### the fragment on which `tr2` is proved correct -/

/-- body of a promotable block: like `okNested`, but a statement of the block's own list may assign a name that is not declared yet;
    returns the declarations after the block -/
def Stmt.okBody2 (all : List String) (te : C.TyEnv) : Stmt → Option C.TyEnv
  | .skip => some te
  | .seq a b => do let te1 ← a.okBody2 all te; b.okBody2 all te1
  | .assign x e =>
    if !(e.wt te) then none
    else match te.lookup x with
      | some t => if t == inferTy te e then some te else none
      | none => some (te ++ [(x, inferTy te e)])
  | s => if s.okNested all te then some te else none

/-- a chain: every branch from the same `te`; a name introduced by several branches gets the same type in each;
    returns the declarations after the chain (the promoted ones appended) -/
def Stmt.okChain2 (all : List String) (te : C.TyEnv) : Stmt → Option C.TyEnv
  | .ifs c t e =>
    if !(c.okCond te) then none
    else do
      let teT ← t.okBody2 all te
      let promT := newDecls te teT
      let teE ← (match e with
        | .skip => some te
        | .ifs c2 t2 e2 => (Stmt.ifs c2 t2 e2).okChain2 all te
        | other => other.okBody2 all te)
      let promE := newDecls te teE
      if promE.all (fun d => match promT.lookup d.1 with | some t => t == d.2 | none => true) then
        some (te ++ promT ++ promE.filter fun d => (promT.lookup d.1).isNone)
      else none
  | _ => none

def Stmt.okTop2 (all : List String) (te : C.TyEnv) : Stmt → Option C.TyEnv
  | .skip => some te
  | .seq a b => do let te1 ← a.okTop2 all te; b.okTop2 all te1
  | .assign x e => (Stmt.assign x e).okTop all te
  | .ifs c t e => (Stmt.ifs c t e).okChain2 all te
  | .whileLoop c b => if c.okCond te then b.okBody2 all te else none
  | .forRange i n b =>
    if n.okCond te && !(all.contains i) && (te.lookup i).isNone && n.vars.all (fun v => !(b.assigned.contains v)) then
      (b.okBody2 all ((i, .int) :: te)).map fun te' => te'.filter (·.1 ≠ i)
    else none
  | s => if s.okNested all te then some te else none

def InF2 (p : Prog) : Bool :=
  let all := p.pre.assigned ++ (match p.body with | some b => b.assigned | none => []) ++ p.helpers.flatMap (·.body.assigned)
  match p.pre.okTop2 all [] with
  | none => false
  | some te => match p.body with
    | none => true
    | some b => b.okNested all te

end Reduino.Lang
