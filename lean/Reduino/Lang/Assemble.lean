/-
  Assembly of `setup()` and `loop()` by emit() (emitter.py): pass 1 hoists device configuration found at the top level of
  setup_body and loop_body, pass 2 emits the statements in source order, `loop()` starts with the injected housekeeping
  (button polls, LCD ticks — parse() prepends them, sorted by name).  A program is abstracted to its top-level items.
-/
namespace Reduino.Lang.Assemble

inductive Kind where
  | led | rgb | servo | motor | buzzer | button | pot | ultra | lcd | serial
  deriving DecidableEq, Repr

inductive Item where
  | decl (k : Kind) (name : String)
  | use (name : String)            -- a command or query on the named device
  | stmt (tag : Nat)               -- any other statement
  deriving DecidableEq, Repr

structure Prog where
  setup : List Item
  loop : List Item
  deriving Repr

inductive Ev where
  | cfg (name : String)            -- pinMode / attach / begin / init / Serial.begin / motor safe stop for that device
  | use (name : String)
  | stmt (tag : Nat)
  | poll (name : String)           -- injected button sample at the head of loop()
  deriving DecidableEq, Repr

/-- configured by pass 1 when declared before the main loop -/
def pass1Setup : Kind → Bool
  | .button | .servo | .motor | .lcd | .buzzer | .pot => true
  | .led | .rgb | .ultra | .serial => false

/-- hoisted into setup() by pass 1 when declared at the top of the main-loop body -/
def hoistedFromLoop : Kind → Bool
  | .led | .rgb | .servo | .motor | .button | .pot | .ultra => true
  | .lcd | .buzzer | .serial => false

/-- configured at its own position by pass 2 (only inside setup()) -/
def pass2Setup : Kind → Bool
  | .led | .rgb | .buzzer | .ultra | .motor | .serial => true
  | _ => false

def pass1 (p : Prog) : List Ev :=
  (p.setup.filterMap fun i => match i with | .decl k n => if pass1Setup k then some (.cfg n) else none | _ => none) ++
  (p.loop.filterMap fun i => match i with | .decl k n => if hoistedFromLoop k then some (.cfg n) else none | _ => none)

def pass2Setup' (items : List Item) : List Ev :=
  items.filterMap fun i => match i with
    | .decl k n => if pass2Setup k then some (.cfg n) else none
    | .use n => some (.use n)
    | .stmt t => some (.stmt t)

def setupEvents (p : Prog) : List Ev := pass1 p ++ pass2Setup' p.setup

def insertSorted (x : String) : List String → List String
  | [] => [x]
  | y :: ys => if x ≤ y then x :: y :: ys else y :: insertSorted x ys

def sortNames (l : List String) : List String := l.foldr insertSorted []

/-- buttons (declared anywhere at top level) are sampled at the head of every pass, in name order -/
def polls (p : Prog) : List Ev :=
  (sortNames ((p.setup ++ p.loop).filterMap fun i => match i with | .decl .button n => some n | _ => none)).map Ev.poll

def loopEvents (p : Prog) : List Ev :=
  polls p ++ p.loop.filterMap fun i => match i with
    | .decl _ _ => none
    | .use n => some (.use n)
    | .stmt t => some (.stmt t)

def repeatList {α : Type} (l : List α) : Nat → List α
  | 0 => []
  | n + 1 => l ++ repeatList l n

/-- everything the firmware does in `setup(); loop() × N` at this level of abstraction -/
def run (p : Prog) (N : Nat) : List Ev := setupEvents p ++ repeatList (loopEvents p) N

end Reduino.Lang.Assemble
