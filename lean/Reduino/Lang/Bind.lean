/-
  Argument binding: Python's rule for a call against a signature, and the transpiler's per-parameter lookups
  (`_extract_call_argument(args, keyword=…)` falling back to `position=…`, or `_call_argument` for Core helpers),
  summarised per parameter as: is the value seen when passed by keyword? when passed at its position?
-/
namespace Reduino.Lang.Bind

structure Param where
  name : String
  kwOnly : Bool
  hasDefault : Bool
  deriving DecidableEq, Repr

abbrev Sig := List Param

/-- what the transpiler does with a parameter passed a given way -/
inductive Route where
  | seen        -- the value reaches the generated code
  | ignored     -- silently dropped (the default is used instead)
  | rejected    -- ValueError
  deriving DecidableEq, Repr

structure FieldSpec where
  name : String
  byKeyword : Route
  byPosition : Route
  deriving DecidableEq, Repr

abbrev Spec := List FieldSpec

/-- a call shape: the first `npos` positional-or-keyword parameters are passed positionally, `kws` by keyword -/
structure Shape where
  npos : Nat
  kws : List String
  deriving DecidableEq, Repr

def posParams (sig : Sig) : List String := (sig.filter (!·.kwOnly)).map (·.name)

def positional (sig : Sig) (s : Shape) : List String := (posParams sig).take s.npos

def provided (sig : Sig) (s : Shape) : List String := positional sig s ++ s.kws

/-- Python accepts the call: not too many positionals, keywords name parameters, nothing bound twice, every
    parameter without a default is provided -/
def pyAccepts (sig : Sig) (s : Shape) : Bool :=
  decide (s.npos ≤ (posParams sig).length) &&
  s.kws.all (fun k => sig.any (·.name == k)) &&
  decide s.kws.Nodup &&
  s.kws.all (fun k => !(positional sig s).contains k) &&
  sig.all (fun p => p.hasDefault || (provided sig s).contains p.name)

def routeOf (spec : Spec) (sig : Sig) (s : Shape) (p : String) : Route :=
  match spec.find? (·.name == p) with
  | none => .ignored
  | some f => if (positional sig s).contains p then f.byPosition else f.byKeyword

/-- the transpiler rejects the call -/
def trRejects (spec : Spec) (sig : Sig) (s : Shape) : Bool :=
  (provided sig s).any fun p => routeOf spec sig s p == .rejected

/-- provided parameters whose value never reaches the generated code -/
def unseen (spec : Spec) (sig : Sig) (s : Shape) : List String :=
  (provided sig s).filter fun p => routeOf spec sig s p == .ignored

/-- "rejected with an error, or bound to the same parameter values Python binds" -/
def agrees (spec : Spec) (sig : Sig) (s : Shape) : Bool :=
  !pyAccepts sig s || trRejects spec sig s || (unseen spec sig s).isEmpty

/-- one row of the behaviour table regenerated from the transpiler: a call shape (keywords in signature order), whether
    the transpiler rejects it, and the provided parameters whose value does not reach the generated code -/
structure Row where
  shape : Shape
  rejected : Bool
  unseen : List String
  deriving DecidableEq, Repr

abbrev Table := List Row

/-- sublists of a list (subsets of the optional parameters) -/
def sublists : List String → List (List String)
  | [] => [[]]
  | x :: rest => (sublists rest).flatMap fun l => [l, x :: l]

/-- every call shape up to keyword order: each positional prefix, each subset of the remaining parameters by keyword
    (in signature order) -/
def allShapes (sig : Sig) : List Shape :=
  (List.range ((posParams sig).length + 1)).flatMap fun k =>
    (sublists ((sig.map (·.name)).filter fun n => !((posParams sig).take k).contains n)).map fun kws => ⟨k, kws⟩

def allAgree (spec : Spec) (sig : Sig) : Bool := (allShapes sig).all (agrees spec sig)

/-- every shape Python accepts has a row, and that row is a rejection or binds every provided parameter -/
def tableAgrees (sig : Sig) (t : Table) : Bool :=
  (allShapes sig).all fun s =>
    !pyAccepts sig s ||
      (match t.find? (fun r => r.shape == s) with
       | some r => r.rejected || r.unseen.isEmpty
       | none => false)

/-- the rows that break the property: accepted by Python, accepted by the transpiler, some value dropped -/
def offending (sig : Sig) (t : Table) : List Row :=
  t.filter fun r => pyAccepts sig r.shape && !r.rejected && !r.unseen.isEmpty

end Reduino.Lang.Bind
