import Reduino.Lang.Assemble
/-
  Pin-level model of emit()'s assembly of `setup()` / `loop()` (emitter.py, pass 1 ≈ l.2635–2956, pass 2 = `_emit_block`).
  Finer than Lang/Assemble.lean: declarations carry the pins the constructor names, events are what the mock core's trace
  shows (`pm`, `dw`/`aw`/`tone`, `dr`/`ar`/`pulsein`, `servo.attach`, `servo.write`, `lcd.init|begin`, `serial.begin`).

  What the emitter keeps while it walks the top-level nodes, and what is kept here:
  * one dictionary per device class (led_pin, rgb_led_pins, dc_motor_pins, buzzer_pin, ultrasonic_decls, potentiometer_decls,
    button_decls, the Servo object, lcd_state)  —  `Env`, keyed by (name, kind): the binding in force;
  * the dedup sets pin_mode_emitted / ultrasonic_pin_modes / loop_ultrasonic_modes  —  `keys`, one `Slot` per tuple shape;
  * the by-name sets button_init_emitted / servo_attach_emitted / lcd_init_emitted  —  "the name already has an entry of
    that class" (they are filled exactly when the entry is created).
  Pass 1 walks setup_body then loop_body and writes into setup(); pass 2 walks setup_body again (in_setup = True: Led, RGB,
  Ultrasonic get their pinMode at their own position, a motor is stopped a second time, Serial.begin), then loop_body
  (in_setup = False: a declaration only re-binds the name, nothing is configured).
-/
namespace Reduino.Lang.AssemblePins
open Reduino.Lang.Assemble (repeatList)

inductive Kind where
  | led | rgb | servo | motor | buzzer | button | pot | ultra | lcd | serial
  | buttonIn     -- W10: a Button whose declaration carries mode INPUT (ButtonDecl.mode; `button` = the default INPUT_PULLUP)
  deriving DecidableEq, Repr

inductive Mode where
  | input | output | pullup
  deriving DecidableEq, Repr

/-- pins as the constructor gives them: Led [p], RGBLed [r, g, b], Servo [p], DCMotor [in1, in2, enable], Buzzer [p],
    Button [p], Potentiometer [p], Ultrasonic [trig, echo], LCD [] (I2C) or [rs, en, d4, d5, d6, d7] (+ [backlight]),
    SerialMonitor [] -/
inductive Item where
  | decl (k : Kind) (name : String) (pins : List Nat)
  | use (name : String)            -- one command / query on the named device
  | stmt (tag : Nat)               -- any other statement
  | animate (name : String)        -- W10: `name.animate(…)`, an animation started on the named LCD
  deriving DecidableEq, Repr

structure Prog where
  setup : List Item
  loop : List Item
  deriving Repr

inductive Ev where
  | pinMode (pin : Nat) (m : Mode)
  | attach (pin : Nat)             -- Servo::attach
  | serialBegin
  | lcdInit (name : String)        -- begin() / init() of that display object
  | write (pin : Nat)              -- digitalWrite / analogWrite / tone / noTone
  | read (pin : Nat)               -- digitalRead (in setup()) / analogRead / pulseIn
  | servoWrite (pin : Nat)         -- write() on the Servo object attached to `pin`
  | lcdWrite (name : String)
  | stmt (tag : Nat)
  | poll (name : String) (pin : Nat)   -- injected digitalRead at the head of loop()
  | animStart (name : String)      -- W10: __redu_lcd_start_<style>(…) on that display
  | tick (name : String)           -- W10: injected __redu_lcd_tick_<style>(…) on that display, at the head of loop()
  deriving DecidableEq, Repr

/-- the shapes of tuples in the emitter's pinMode dedup sets -/
inductive Slot where
  | button | buttonIn | in1 | in2 | enable | out | inp | idx (i : Nat) | led | uSetupOut | uSetupIn | uLoopOut | uLoopIn
  deriving DecidableEq, Repr

def Slot.mode : Slot → Mode
  | .button => .pullup
  | .inp | .uSetupIn | .uLoopIn | .buttonIn => .input
  | _ => .output

structure Key where
  name : String
  pin : Nat
  slot : Slot
  deriving DecidableEq, Repr

/-- the line a key stands for -/
def Key.ev (k : Key) : Ev := .pinMode k.pin k.slot.mode

abbrev Env := List ((String × Kind) × List Nat)

def get : Env → String → Kind → Option (List Nat)
  | [], _, _ => none
  | ((n', k'), ps) :: rest, n, k => if n' = n ∧ k' = k then some ps else get rest n k

def set (env : Env) (n : String) (k : Kind) (ps : List Nat) : Env := ((n, k), ps) :: env

def setDefault (env : Env) (n : String) (k : Kind) (ps : List Nat) : Env :=
  match get env n k with
  | some _ => env
  | none => set env n k ps

structure St where
  env : Env
  keys : List Key
  deriving Repr

/-- `pinMode(pin, mode)` unless that tuple is already in the dedup set -/
def ensure (k : Key) (s : St) : St × List Ev :=
  if k ∈ s.keys then (s, []) else ({ s with keys := k :: s.keys }, [k.ev])

def ensureAll : List Key → St → St × List Ev
  | [], s => (s, [])
  | k :: ks, s =>
    let r := ensure k s
    let r' := ensureAll ks r.1
    (r'.1, r.2 ++ r'.2)

def withEnv (s : St) (env : Env) : St := { s with env := env }

/-- motor driven to a safe stop -/
def safeStop : List Nat → List Ev
  | [a, b, e] => [.write a, .write b, .write e]
  | _ => []

/-- LCD begin()/init(); a parallel display with a backlight pin also gets pinMode + analogWrite -/
def lcdBring (n : String) (ps : List Nat) : List Ev :=
  .lcdInit n :: (match ps with
    | [_, _, _, _, _, _, bl] => [.pinMode bl .output, .write bl]
    | _ => [])

/-- pass 1 over setup_body -/
def p1Setup (s : St) (k : Kind) (n : String) (ps : List Nat) : St × List Ev :=
  match k, ps with
  | .button, [p] =>
    match get s.env n .button with
    | some _ => (withEnv s (set s.env n .button ps), [])          -- name already initialised: nothing, not even pinMode
    | none =>
      let r := ensure ⟨n, p, .button⟩ s
      (withEnv r.1 (set s.env n .button ps), r.2 ++ [.read p])     -- pinMode + initial sample
  | .buttonIn, [p] =>                                               -- the same with `pinMode(p, INPUT)`; the sample is not affected
    match get s.env n .buttonIn with
    | some _ => (withEnv s (set s.env n .buttonIn ps), [])
    | none =>
      let r := ensure ⟨n, p, .buttonIn⟩ s
      (withEnv r.1 (set s.env n .buttonIn ps), r.2 ++ [.read p])
  | .servo, [p] =>
    match get s.env n .servo with
    | some _ => (s, [])
    | none => (withEnv s (set s.env n .servo ps), [.attach p])
  | .motor, [a, b, e] =>
    let r := ensureAll [⟨n, a, .in1⟩, ⟨n, b, .in2⟩, ⟨n, e, .enable⟩] s
    (withEnv r.1 (set s.env n .motor ps), r.2 ++ safeStop ps)
  | .lcd, _ =>
    match get s.env n .lcd with
    | some _ => (s, [])
    | none => (withEnv s (set s.env n .lcd ps), lcdBring n ps)
  | .led, [_] => (withEnv s (set s.env n .led ps), [])
  | .buzzer, [p] =>
    let r := ensure ⟨n, p, .out⟩ s
    (withEnv r.1 (set s.env n .buzzer ps), r.2)
  | .rgb, [_, _, _] => (withEnv s (set s.env n .rgb ps), [])
  | .ultra, [_, _] => (withEnv s (set s.env n .ultra ps), [])
  | .pot, [p] =>
    let r := ensure ⟨n, p, .inp⟩ s
    (withEnv r.1 (set s.env n .pot ps), r.2)
  | _, _ => (s, [])

/-- pass 1 over loop_body: what is hoisted into setup() for a declaration at the top of the main loop -/
def p1Loop (s : St) (k : Kind) (n : String) (ps : List Nat) : St × List Ev :=
  match k, ps with
  | .button, [p] =>
    let r := ensure ⟨n, p, .button⟩ s
    (withEnv r.1 (set s.env n .button ps),
      r.2 ++ (match get s.env n .button with | some _ => [] | none => [.read p]))
  | .buttonIn, [p] =>
    let r := ensure ⟨n, p, .buttonIn⟩ s
    (withEnv r.1 (set s.env n .buttonIn ps),
      r.2 ++ (match get s.env n .buttonIn with | some _ => [] | none => [.read p]))
  | .servo, [p] =>
    match get s.env n .servo with
    | some _ => (s, [])
    | none => (withEnv s (set s.env n .servo ps), [.attach p])
  | .motor, [a, b, e] =>
    let r := ensureAll [⟨n, a, .in1⟩, ⟨n, b, .in2⟩, ⟨n, e, .enable⟩] s
    (withEnv r.1 (setDefault s.env n .motor ps), r.2 ++ safeStop ps)
  | .led, [p] => (withEnv s (setDefault s.env n .led ps), [.pinMode p .output])     -- no dedup
  | .rgb, [r, g, b] =>
    let q := ensureAll [⟨n, r, .idx 0⟩, ⟨n, g, .idx 1⟩, ⟨n, b, .idx 2⟩] s
    (withEnv q.1 (setDefault s.env n .rgb ps), q.2)
  | .ultra, [t, e] =>
    let r := ensureAll [⟨n, t, .uLoopOut⟩, ⟨n, e, .uLoopIn⟩] s
    (withEnv r.1 (setDefault s.env n .ultra ps), r.2)
  | .pot, [p] =>
    let r := ensure ⟨n, p, .inp⟩ s
    (withEnv r.1 (setDefault s.env n .pot ps), r.2)
  | _, _ => (s, [])                  -- LCD, Buzzer, SerialMonitor: pass 1 does not look at them here

/-- pass 2, in_setup = True: the declaration's own position inside setup() -/
def p2Setup (s : St) (k : Kind) (n : String) (ps : List Nat) : St × List Ev :=
  match k, ps with
  | .led, [p] =>
    let r := ensure ⟨n, p, .led⟩ s
    (withEnv r.1 (set s.env n .led ps), r.2)
  | .buzzer, [p] =>
    let r := ensure ⟨n, p, .out⟩ s
    (withEnv r.1 (set s.env n .buzzer ps), r.2)
  | .rgb, [r, g, b] =>
    let q := ensureAll [⟨n, r, .idx 0⟩, ⟨n, g, .idx 1⟩, ⟨n, b, .idx 2⟩] s
    (withEnv q.1 (set s.env n .rgb ps), q.2)
  | .ultra, [t, e] =>
    let r := ensureAll [⟨n, t, .uSetupOut⟩, ⟨n, e, .uSetupIn⟩] s
    (withEnv r.1 (set s.env n .ultra ps), r.2)
  | .motor, [a, b, e] =>
    let r := ensureAll [⟨n, a, .in1⟩, ⟨n, b, .in2⟩, ⟨n, e, .enable⟩] s
    (withEnv r.1 (set s.env n .motor ps), r.2 ++ safeStop ps)
  | .pot, [_] => (withEnv s (set s.env n .pot ps), [])
  | .serial, _ => (s, [.serialBegin])
  | _, _ => (s, [])                  -- Button, Servo, LCD: nothing at the declaration's position

/-- pass 2, in_setup = False: a declaration in loop() re-binds the name and configures nothing -/
def p2Loop (s : St) (k : Kind) (n : String) (ps : List Nat) : St × List Ev :=
  match k, ps with
  | .led, [_] | .buzzer, [_] | .pot, [_] | .rgb, [_, _, _] | .ultra, [_, _] | .motor, [_, _, _] =>
    (withEnv s (set s.env n k ps), [])
  | .lcd, _ => (withEnv s (setDefault s.env n .lcd ps), [])
  | .serial, _ => (s, [.serialBegin])
  | _, _ => (s, [])

/-- the pins one command on a device touches (the commands the tie uses: toggle, set_color, write, set_speed, play_tone,
    read, measure_distance, line) -/
def useEvents (k : Kind) (n : String) (ps : List Nat) : List Ev :=
  match k, ps with
  | .led, [p] => [.write p]
  | .rgb, [r, g, b] => [.write r, .write g, .write b]
  | .servo, [p] => [.servoWrite p]
  | .motor, [a, b, e] => [.write a, .write b, .write e]
  | .buzzer, [p] => [.write p]
  | .pot, [p] => [.read p]
  | .ultra, [t, e] => [.write t, .write t, .write t, .read e]
  | .lcd, _ => [.lcdWrite n]
  | _, _ => []

/-- pass-2 walker: emitter state + the class the parser resolves a name to (its latest binding in source order) -/
structure W where
  st : St
  cur : List (String × Kind)
  deriving Repr

def kindOf : List (String × Kind) → String → Option Kind
  | [], _ => none
  | (n', k) :: rest, n => if n' = n then some k else kindOf rest n

/-- `measure_distance()` calls a per-name helper function that emit() writes once, AFTER pass 2, from the final content of
    ultrasonic_decls: every measurement of a name — also one in setup() — drives the pins of the LAST top-level binding -/
def lastUltra : List Item → String → Option (List Nat)
  | [], _ => none
  | .decl .ultra n' [t, e] :: rest, n =>
    match lastUltra rest n with
    | some q => some q
    | none => if n' = n then some [t, e] else none
  | _ :: rest, n => lastUltra rest n

def useOf (fin : String → Option (List Nat)) (w : W) (n : String) : List Ev :=
  match kindOf w.cur n with
  | some .ultra => (match fin n with | some ps => useEvents .ultra n ps | none => [])
  | some k => (match get w.st.env n k with | some ps => useEvents k n ps | none => [])
  | none => []

/-- W10. `name.animate(…)`: the parser recognises it on a name it knows as an LCD, the emitter writes the start call when the
    display is registered (`_ensure_lcd`); in setup() this also appends the animation to `lcd_animations[name]` -/
def animOf (w : W) (n : String) : List Ev :=
  match kindOf w.cur n with
  | some .lcd => (match get w.st.env n .lcd with | some _ => [.animStart n] | none => [])
  | _ => []

def foldEv {σ : Type} (f : σ → Item → σ × List Ev) : σ → List Item → σ × List Ev
  | s, [] => (s, [])
  | s, i :: is =>
    let r := f s i
    let r' := foldEv f r.1 is
    (r'.1, r.2 ++ r'.2)

def p1SetupItem (s : St) : Item → St × List Ev
  | .decl k n ps => p1Setup s k n ps
  | _ => (s, [])

def p1LoopItem (s : St) : Item → St × List Ev
  | .decl k n ps => p1Loop s k n ps
  | _ => (s, [])

def stepSetup (fin : String → Option (List Nat)) (w : W) : Item → W × List Ev
  | .decl k n ps => let r := p2Setup w.st k n ps; ({ st := r.1, cur := (n, k) :: w.cur }, r.2)
  | .use n => (w, useOf fin w n)
  | .stmt t => (w, [.stmt t])
  | .animate n => (w, animOf w n)

def stepLoop (fin : String → Option (List Nat)) (w : W) : Item → W × List Ev
  | .decl k n ps => let r := p2Loop w.st k n ps; ({ st := r.1, cur := (n, k) :: w.cur }, r.2)
  | .use n => (w, useOf fin w n)
  | .stmt t => (w, [.stmt t])
  | .animate n => (w, animOf w n)

def pass1S (p : Prog) : St × List Ev := foldEv p1SetupItem ⟨[], []⟩ p.setup
def pass1L (p : Prog) : St × List Ev := foldEv p1LoopItem (pass1S p).1 p.loop
def pass2S (p : Prog) : W × List Ev := foldEv (stepSetup (lastUltra (p.setup ++ p.loop))) ⟨(pass1L p).1, []⟩ p.setup
def pass2L (p : Prog) : W × List Ev := foldEv (stepLoop (lastUltra (p.setup ++ p.loop))) (pass2S p).1 p.loop

def setupEvents (p : Prog) : List Ev := (pass1S p).2 ++ (pass1L p).2 ++ (pass2S p).2

/-- insertion into a strictly increasing list (parse() sorts a *set* of names) -/
def insertUniq (x : String) : List String → List String
  | [] => [x]
  | y :: ys => if x < y then x :: y :: ys else if x = y then y :: ys else y :: insertUniq x ys

def sortUniq (l : List String) : List String := l.foldr insertUniq []

def buttonNames (l : List Item) : List String :=
  l.filterMap fun i => match i with | .decl .button n _ => some n | .decl .buttonIn n _ => some n | _ => none

/-- ButtonPoll reads the pin of button_decls[name] as pass 1 left it (the last top-level binding) -/
def pollOf (env : Env) (n : String) : Option Ev :=
  match get env n .button with
  | some [pin] => some (.poll n pin)
  | _ =>
    match get env n .buttonIn with
    | some [pin] => some (.poll n pin)
    | _ => none

def polls (p : Prog) : List Ev := (sortUniq (buttonNames (p.setup ++ p.loop))).filterMap (pollOf (pass1L p).1.env)

/-- W10. parse() collects in `lcd_tick_names` every LCD name with an `animate` ANYWHERE and prepends one `LCDTick(name)` per
    name, sorted, to loop_body — after that the ButtonPolls are prepended, so polls come first.  The emitter turns an LCDTick into
    one tick call per entry of `lcd_animations[name]` AT THAT POINT of pass 2: the animations started in setup().  An animation
    started inside the loop body is appended later and never ticked (K18a). -/
def animNames (l : List Item) : List String :=
  l.filterMap fun i => match i with | .animate n => some n | _ => none

/-- how many animations setup() starts on display `n` -/
def startedInSetup (p : Prog) (n : String) : Nat := (pass2S p).2.count (.animStart n)

def ticks (p : Prog) : List Ev :=
  (sortUniq (animNames (p.setup ++ p.loop))).flatMap fun n => List.replicate (startedInSetup p n) (.tick n)

def loopEvents (p : Prog) : List Ev := polls p ++ (ticks p ++ (pass2L p).2)

/-- everything the firmware does at pin level in `setup(); loop() × N` -/
def run (p : Prog) (N : Nat) : List Ev := setupEvents p ++ repeatList (loopEvents p) N

end Reduino.Lang.AssemblePins
