import Reduino.Fw.Inputs
import Reduino.Fw.Clock
/-
  `__redu_ultrasonic_measure_<name>()` as it runs on the board: `millis()` returns the real time modulo `W`, the stored stamp
  `__redu_last_trigger_ms` is such a counter value and `elapsed = now - last` is the unsigned difference.  The real time is kept
  alongside (it is what the environment, i.e. the event trace, sees); the helper itself only ever uses `… % W`.
  `Props.C15.ultra_measure_across_wrap` relates this to `Ultra.attempts` on the natural-number clock.
-/
namespace Reduino.Fw
namespace Ultra
variable {α : Type} [Num α] [LT α] [LE α] [DecidableLT α] [DecidableLE α]
variable [Add α] [Sub α] [Mul α] [Div α] [Neg α]

/-- the state as stored on the board -/
def onCounter (W : Nat) (u : Ultra α) : Ultra α := { u with lastTrigger := u.lastTrigger % W }

def attemptsW (W : Nat) : Nat → Ultra α → Nat → List Nat → List Nat → List UEv → UOut α
  | 0, u, now, echoes, drifts, acc =>
    { st := u, now := now, result := if u.has then u.lastDistance else Num.ofInt 400, evs := acc, echoes := echoes, drifts := drifts }
  | k + 1, u, now, echoes, drifts, acc =>
    let (now1, dr1) := millis now drifts
    let elapsed := Clock.usub W (now1 % W) u.lastTrigger
    let (now2, dr2, acc2) :=
      if u.lastTrigger ≠ 0 ∧ elapsed < minInterval then
        let wait := minInterval - elapsed
        let (n', d') := millis (now1 + wait) dr1
        (n', d', acc ++ [.delay wait])
      else (now1, dr1, acc)
    let dur := echoes.headD 0
    let echoes' := echoes.tail
    let (now3, dr3) := millis now2 dr2
    let u' := { u with lastTrigger := now3 % W }
    let acc3 := acc2 ++ [.pulse now2, .echo dur, .stamp now3]
    if 0 < dur then
      let d : α := distanceOf dur
      { st := { u' with lastDistance := d, has := true }, now := now3, result := d, evs := acc3, echoes := echoes', drifts := dr3 }
    else attemptsW W k u' now3 echoes' dr3 acc3

/-- the side condition, read off the natural-number run: at every attempt the previous stamp lies in the past, less than one turn
    of the counter ago, and is not a multiple of `W` (whose counter value 0 means "never") -/
def SafeW (W : Nat) : Nat → Ultra α → Nat → List Nat → List Nat → Prop
  | 0, _, _, _, _ => True
  | k + 1, u, now, echoes, drifts =>
    let (now1, dr1) := millis now drifts
    let (now2, dr2) :=
      if u.lastTrigger ≠ 0 ∧ now1 - u.lastTrigger < minInterval then millis (now1 + (minInterval - (now1 - u.lastTrigger))) dr1
      else (now1, dr1)
    let (now3, dr3) := millis now2 dr2
    (u.lastTrigger ≤ now1 ∧ now1 - u.lastTrigger < W ∧ (u.lastTrigger = 0 ∨ u.lastTrigger % W ≠ 0)) ∧
      (0 < echoes.headD 0 ∨ SafeW W k { u with lastTrigger := now3 } now3 echoes.tail dr3)

end Ultra
end Reduino.Fw
