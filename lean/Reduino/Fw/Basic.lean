import Reduino.Basic
/-
  Shared pieces of the firmware-side models: the emitted C++ blocks as pure functions over shadow state.
  Floats are C `float`: the driver instantiates `α := Float32`, the theorems an ordered field.
  A C argument is a `Val α`: an `int` expression value or a `float` expression value.
-/
namespace Reduino.Fw

instance : Num Float32 where
  ofInt := Float32.ofInt
  trunc x := x.toInt64.toInt
  roundHE x := x.toInt64.toInt   -- unused on the firmware side

variable {α : Type} [Num α] [LT α] [LE α] [DecidableLT α] [DecidableLE α]
variable [Add α] [Sub α] [Mul α] [Div α] [Neg α]

/-- a decimal literal `num/den` as the C compiler reads it (nearest float) -/
def lit (num den : Int) : α := Num.ofInt num / Num.ofInt den

def fzero : α := Num.ofInt 0

/-- `static_cast<unsigned long>(arg)` / `static_cast<unsigned int>(arg)`; a negative value is undefined
    behaviour for a float and wraps to a huge value for an int: both are reported as `none` -/
def toULong (v : Val α) : Option Int :=
  match v with
  | .int n => if n < 0 then none else some n
  | .flt x => if x < fzero then none else some (Num.trunc x)

/-- `static_cast<int>(arg)` / `int x = arg;` (float → int truncates toward zero) -/
def toCInt (v : Val α) : Int := v.toInt

/-- `static_cast<unsigned int>(f + 0.5f)` for `f > 0` -/
def toneOf (f : α) : Int := Num.trunc (f + lit 1 2)

inductive Ev where
  | pinMode (pin mode : Int)
  | dWrite (pin level : Int)
  | aWrite (pin duty : Int)
  | delay (ms : Int)
  | tone (pin freq : Int)
  | noTone (pin : Int)
  | servoWrite (angle : Int)
  | servoUs (us : Int)
  deriving DecidableEq, Repr

def Ev.show : Ev → String
  | .pinMode p m => s!"pm {p} {m}"
  | .dWrite p l => s!"dw {p} {l}"
  | .aWrite p d => s!"aw {p} {d}"
  | .delay ms => s!"delay {ms}"
  | .tone p f => s!"tone {p} {f}"
  | .noTone p => s!"notone {p}"
  | .servoWrite a => s!"servo.write {a}"
  | .servoUs u => s!"servo.us {u}"

end Reduino.Fw
