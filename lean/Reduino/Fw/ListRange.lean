import Reduino.Fw.ListHeap
/-
  Model of the emitted helper template `__redu_list_from_range<T>(start, stop, step, func)` (`LIST_HELPER_SNIPPET` in emitter.py),
  the target of a list comprehension `[f(t) for t in range(start, stop, step)]`:

      __redu_list<T> result;                       // {nullptr, 0}
      if (step == 0) { return result; }
      int count = 0;
      if (step > 0) { for (int value = start; value < stop; value += step) { ++count; } }
      else          { for (int value = start; value > stop; value += step) { ++count; } }
      result.data = count > 0 ? new T[count] : nullptr;
      result.size = 0;
      if (step > 0) { for (int value = start; value < stop; value += step) { result.data[result.size++] = func(value); } }
      else          { for (int value = start; value > stop; value += step) { result.data[result.size++] = func(value); } }
      return result;

  `fromRangeRun` mirrors the two walks as written: a counting loop, one block of `count` cells (no cell behind nullptr), and a fill
  loop that stores through `result.data[result.size++]` with the bound of the block checked (`MemErr.oob` when the fill walk visits
  more values than the counting walk counted — what the seeded "clever" counts do).  The loops are well-founded recursions whose measure is
  the distance to `stop`; the proof `0 < step` / `step < 0` they carry is the enclosing `if (step > 0) … else …` of the template.
  C `int` is an unbounded integer here (as everywhere in the C models: overflow of `value += step` past INT_MAX is outside the model;
  `exitUp_lt`/`exitDown_gt` in Props/C01Range bound the last value the walk computes by `stop + step`).

  `pyRange a b s` is Python's `list(range(a, b, s))` for `s ≠ 0`, in closed form (element count `pyRangeLen`, i-th element `a + i*s`);
  for `s = 0` Python raises ValueError (`pyRangeE = none`), the closed form's value `[]` there is a convention.
-/
namespace Reduino.Fw.ListRange
open Reduino.Fw.Heap

/-- `len(range(a, b, s))`; `Int`'s `/` is floor division for a positive divisor -/
def pyRangeLen (a b s : Int) : Nat :=
  if s > 0 then ((b - a + s - 1) / s).toNat
  else if s < 0 then ((a - b - s - 1) / (-s)).toNat
  else 0

/-- `list(range(a, b, s))` for `s ≠ 0` -/
def pyRange (a b s : Int) : List Int := (List.range (pyRangeLen a b s)).map (fun (i : Nat) => a + (i : Int) * s)

/-- Python's `range(a, b, 0)` raises ValueError -/
def pyRangeE (a b s : Int) : Option (List Int) := if s = 0 then none else some (pyRange a b s)

/-- `for (int value = v; value < stop; value += step) { ++count; }` under `step > 0` -/
def countUp (stop step : Int) (hs : 0 < step) (value : Int) (count : Nat) : Nat :=
  if _h : value < stop then countUp stop step hs (value + step) (count + 1) else count
termination_by (stop - value).toNat
decreasing_by omega

/-- `for (int value = v; value > stop; value += step) { ++count; }` under `step < 0` -/
def countDown (stop step : Int) (hs : step < 0) (value : Int) (count : Nat) : Nat :=
  if _h : value > stop then countDown stop step hs (value + step) (count + 1) else count
termination_by (value - stop).toNat
decreasing_by omega

/-- `for (int value = v; value < stop; value += step) { result.data[result.size++] = func(value); }` under `step > 0`;
    `cells` is the block behind `result.data` (empty for nullptr) -/
def fillUp (f : Int → Int) (stop step : Int) (hs : 0 < step) (value : Int) (cells : List Int) (size : Nat) : Except MemErr (List Int × Nat) :=
  if _h : value < stop then
    if size < cells.length then fillUp f stop step hs (value + step) (cells.set size (f value)) (size + 1)
    else .error .oob
  else .ok (cells, size)
termination_by (stop - value).toNat
decreasing_by omega

/-- the same walk under `step < 0` (`value > stop`) -/
def fillDown (f : Int → Int) (stop step : Int) (hs : step < 0) (value : Int) (cells : List Int) (size : Nat) : Except MemErr (List Int × Nat) :=
  if _h : value > stop then
    if size < cells.length then fillDown f stop step hs (value + step) (cells.set size (f value)) (size + 1)
    else .error .oob
  else .ok (cells, size)
termination_by (value - stop).toNat
decreasing_by omega

/-- the value of the loop variable when the walk leaves the loop (the largest value `value += step` ever computes) -/
def exitUp (stop step : Int) (hs : 0 < step) (value : Int) : Int :=
  if _h : value < stop then exitUp stop step hs (value + step) else value
termination_by (stop - value).toNat
decreasing_by omega

def exitDown (stop step : Int) (hs : step < 0) (value : Int) : Int :=
  if _h : value > stop then exitDown stop step hs (value + step) else value
termination_by (value - stop).toNat
decreasing_by omega

/-- the counting walk of the template (`count` after the first `if (step > 0) … else …`) -/
def fwCount (start stop step : Int) : Nat :=
  if h0 : step = 0 then 0
  else if h : step > 0 then countUp stop step h start 0
  else countDown stop step (by omega) start 0

/-- the whole helper: (block behind `result.data` — `[]` for nullptr —, `result.size`) -/
def fromRangeRun (f : Int → Int) (start stop step : Int) : Except MemErr (List Int × Nat) :=
  if h0 : step = 0 then .ok ([], 0)
  else
    let count := fwCount start stop step
    let cells := List.replicate count (0 : Int)        -- `count > 0 ? new T[count] : nullptr`
    if h : step > 0 then fillUp f stop step h start cells 0
    else fillDown f stop step (by omega) start cells 0

/-- the list seen through the returned struct (`data[0 .. size)`); a memory error shows as `none` -/
def fwRangeMap? (f : Int → Int) (a b s : Int) : Option (List Int) :=
  match fromRangeRun f a b s with
  | .ok (cells, size) => if size ≤ cells.length then some (cells.take size) else none
  | .error _ => none

/-- `[t for t in range(a, b, s)]` as the firmware computes it (`[]` on a memory error; `fwRange_safe` excludes it) -/
def fwRange (a b s : Int) : List Int := (fwRangeMap? id a b s).getD []

/-- heap side: the helper allocates exactly one block of `count` cells, none when the count is 0 (convention of `makeList`) -/
def fromRange (h : Heap) (f : Int → Int) (a b s : Int) : Except MemErr (Heap × LVal) := do
  let (cells, size) ← fromRangeRun f a b s
  if cells.isEmpty then pure (h, { data := none, size := size })
  else
    let (h', id) := alloc h cells
    pure (h', { data := some id, size := size })

/-- the two seeded "clever" counts, with C's truncating `/` and `%` (`Int.tdiv`, `Int.tmod`) -/
def cleverCountN (start stop step : Int) : Int :=
  if step > 0 ∧ start < stop then (stop - start + step - 1).tdiv step
  else if step < 0 ∧ start > stop then (start - stop).tdiv (-step)
  else 0

def cleverCountP (start stop step : Int) : Int :=
  let span := stop - start
  let count := span.tdiv step
  if span.tmod step ≠ 0 then count + 1 else count

end Reduino.Fw.ListRange
