/-
  Heap model of the emitted list helper templates (`LIST_HELPER_SNIPPET` in emitter.py) and of the usage forms the
  transpiler emits for list-valued names.  `__redu_list<T>` is a plain struct {T *data; size_t size;} with no copy
  semantics, `new[]`/`delete[]` only inside the helpers.  Usage forms: declaration from a maker, first copy `y = x`
  (struct copy), re-assignment from a variable / from a temporary (`__redu_list_assign`), append, remove, get, len, and
  the tuple swap `x, y = y, x` of two declared lists (two shallow struct temporaries, then plain struct assignments —
  the helpers are not involved, nothing is allocated or freed).
-/
namespace Reduino.Fw.Heap

inductive MemErr where
  | oob | useAfterFree | doubleFree
  deriving DecidableEq, Repr

structure Block where
  alive : Bool
  cells : List Int
  deriving DecidableEq, Repr

/-- a list value: the struct's two fields (`data = none` is nullptr) -/
structure LVal where
  data : Option Nat
  size : Nat
  deriving DecidableEq, Repr

structure Heap where
  blocks : List Block := []
  vars : List (String × LVal) := []
  deriving Repr

inductive Op where
  /-- `__redu_list<T> x = __redu_make_list<T>(v…);` (declaration from a maker; also a local declared in loop()) -/
  | declMake (x : String) (vals : List Int)
  /-- `__redu_list<T> y = {}; y = x;` — the struct copy emitted for a first `y = x` (shares `data`) -/
  | declCopy (y x : String)
  /-- `__redu_list_assign(x, y)` with `y` a variable -/
  | assignVar (x y : String)
  /-- `__redu_list_assign(x, __redu_make_list<T>(v…))` — the temporary is never freed -/
  | assignTemp (x : String) (vals : List Int)
  | append (x : String) (v : Int)
  | remove (x : String) (v : Int)
  /-- `__redu_list_get(x, i)` (negative `i` counts from the end) -/
  | get (x : String) (i : Int)
  | len (x : String)
  /-- `x, y = y, x`: `__redu_list<T> t0 = y; __redu_list<T> t1 = x; x = t0; y = t1;` — the two structs are exchanged
      (the temporaries are block-scoped shallow copies and die with the statement) -/
  | swap (x y : String)
  deriving Repr

def liveBlocks (h : Heap) : Nat := (h.blocks.filter (·.alive)).length

def lookup (h : Heap) (x : String) : LVal := (h.vars.lookup x).getD { data := none, size := 0 }

def setVar (h : Heap) (x : String) (v : LVal) : Heap :=
  { h with vars := (x, v) :: h.vars.filter (·.1 ≠ x) }

/-- `new T[n]{…}`: returns the new block id -/
def alloc (h : Heap) (cells : List Int) : Heap × Nat :=
  ({ h with blocks := h.blocks ++ [{ alive := true, cells := cells }] }, h.blocks.length)

/-- `delete[] p` -/
def free (h : Heap) (p : Option Nat) : Except MemErr Heap :=
  match p with
  | none => .ok h
  | some id =>
    match h.blocks[id]? with
    | none => .error .useAfterFree
    | some b =>
      if b.alive then .ok { h with blocks := h.blocks.set id { b with alive := false } }
      else .error .doubleFree

/-- read the whole buffer through a list value (every helper that copies does this) -/
def readAll (h : Heap) (l : LVal) : Except MemErr (List Int) :=
  if l.size = 0 then .ok []
  else match l.data with
    | none => .error .oob
    | some id =>
      match h.blocks[id]? with
      | none => .error .useAfterFree
      | some b => if !b.alive then .error .useAfterFree
                  else if b.cells.length < l.size then .error .oob else .ok (b.cells.take l.size)

def makeList (h : Heap) (vals : List Int) : Heap × LVal :=
  if vals.isEmpty then (h, { data := none, size := 0 })
  else let (h', id) := alloc h vals; (h', { data := some id, size := vals.length })

/-- `__redu_list_assign(dest, source)` where the two are distinct objects -/
def assign (h : Heap) (x : String) (src : LVal) : Except MemErr Heap := do
  let dest := lookup h x
  let h1 ← free h dest.data
  let cells ← readAll h1 src
  let (h2, l) := makeList h1 cells
  pure (setVar h2 x l)

structure StepOut where
  heap : Heap
  /-- value produced by `get` / `len` -/
  value : Option Int := none

def step (h : Heap) : Op → Except MemErr StepOut
  | .declMake x vals => let (h', l) := makeList h vals; .ok { heap := setVar h' x l }
  | .declCopy y x => .ok { heap := setVar h y (lookup h x) }
  | .assignVar x y =>
    if x = y then .ok { heap := h }     -- `&dest == &source`
    else do let h' ← assign h x (lookup h y); pure { heap := h' }
  | .assignTemp x vals =>
    let (h1, tmp) := makeList h vals
    do let h' ← assign h1 x tmp; pure { heap := h' }
  | .append x v => do
    let l := lookup h x
    let cells ← readAll h l
    let (h1, id) := alloc h (cells ++ [v])
    let h2 ← free h1 l.data
    pure { heap := setVar h2 x { data := some id, size := l.size + 1 } }
  | .remove x v => do
    let l := lookup h x
    if l.size = 0 then pure { heap := h }
    else
      let cells ← readAll h l
      match cells.findIdx? (· = v) with
      | none => pure { heap := h }
      | some k =>
        let rest := cells.eraseIdx k
        if l.size > 1 then
          let (h1, id) := alloc h rest
          let h2 ← free h1 l.data
          pure { heap := setVar h2 x { data := some id, size := l.size - 1 } }
        else
          let h2 ← free h l.data
          pure { heap := setVar h2 x { data := none, size := 0 } }
  | .get x i => do
    let l := lookup h x
    let idx : Int := if i < 0 then i + Int.ofNat l.size else i
    if idx < 0 ∨ idx ≥ Int.ofNat l.size then .error .oob
    else
      let cells ← readAll h l
      pure { heap := h, value := cells[idx.toNat]? }
  | .len x => .ok { heap := h, value := some (Int.ofNat (lookup h x).size) }
  | .swap x y =>
    if x = y then .ok { heap := h }     -- `x = t0; x = t1;` with both temporaries equal to `x`
    else
      let t0 := lookup h y
      let t1 := lookup h x
      .ok { heap := setVar (setVar h x t0) y t1 }

def run (h : Heap) : List Op → Except MemErr Heap
  | [] => .ok h
  | op :: rest => do let o ← step h op; run o.heap rest

end Reduino.Fw.Heap
