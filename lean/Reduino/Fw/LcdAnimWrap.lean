import Reduino.Fw.LcdAnim
/-
  The rate limiter of the `__redu_lcd_tick_*` templates as it is computed on the board: `millis()` is an unsigned counter of
  `W` values (`W = 2^32` for the AVR `unsigned long`, `2^64` for the host compiler of the mock core) and
  `elapsed = now - state.last_step` is the difference modulo `W`.  `Fw/LcdAnim.lean` models the clock as a natural number;
  `Props/C18.lean` proves that the two agree on every run whose consecutive ticks are less than `W - speed_ms` apart
  (`fw_run_across_wrap`), which is what lets the natural-number model speak about runs across the counter's wrap-around.
-/
namespace Reduino.Lcd

/-- does the rate limiter let a step happen when the counter reads `now` (`now`, `lastStep` < `W`)? -/
def Anim.dueW (W : Nat) (a : Anim) (now : Nat) : Bool :=
  !(a.speed > 0 && a.lastStep > 0 && decide ((now + W - a.lastStep) % W < a.speed))

/-- the state as stored on the board when the real step time is `a.lastStep` -/
def Anim.onCounter (W : Nat) (a : Anim) : Anim := { a with lastStep := a.lastStep % W }

namespace Fw

/-- `__redu_lcd_tick_*` on the counter value `now` -/
def tickW (W : Nat) (a : Anim) (g : Grid) (cols : Nat) (now : Nat) : Anim × Out × Bool :=
  if !a.active then (a, { grid := g }, false)
  else if !a.dueW W now then (a, { grid := g }, false)
  else
    let (a', o) := step { a with lastStep := now } g cols
    (a', o, true)

/-- ticks at the real times `ts` (natural-number clock) -/
def ticks (cols : Nat) : List Nat → Anim × Grid → Anim × Grid
  | [], s => s
  | t :: ts, (a, g) => ticks cols ts ((tick a g cols t).1, (tick a g cols t).2.1.grid)

/-- the same ticks as the board sees them: the counter reads `t % W` -/
def ticksW (W cols : Nat) : List Nat → Anim × Grid → Anim × Grid
  | [], s => s
  | t :: ts, (a, g) => ticksW W cols ts ((tickW W a g cols (t % W)).1, (tickW W a g cols (t % W)).2.1.grid)

end Fw

/-- the states in which the board's counter arithmetic and the natural-number clock decide the same at the next tick `now`:
    either no step has happened yet (`lastStep = 0`, the templates' "not yet" value), or the last step was at a time that is
    not a multiple of `W` (so its counter value is not mistaken for "not yet") less than `W` ms before `now` -/
def Agrees (W : Nat) (a : Anim) (now : Nat) : Prop :=
  a.lastStep = 0 ∨ (a.lastStep % W ≠ 0 ∧ a.lastStep ≤ now ∧ now - a.lastStep < W)

/-- tick times `t₁ ≤ t₂ ≤ …` after `prev`, none a multiple of `W`, consecutive ones less than `W - speed` apart -/
def Paced (W speed : Nat) : Nat → List Nat → Prop
  | _, [] => True
  | prev, t :: ts => prev ≤ t ∧ (t - prev) + speed < W ∧ t % W ≠ 0 ∧ Paced W speed t ts

/-- what holds of an animation right after a tick at `prev` -/
def OkAt (W : Nat) (a : Anim) (prev : Nat) : Prop :=
  a.active = false ∨ a.lastStep = 0 ∨ (a.lastStep % W ≠ 0 ∧ a.lastStep ≤ prev ∧ prev - a.lastStep ≤ a.speed)

/-- the gate written as `now < last_step + speed_ms` (sum taken modulo `W`) is NOT sound across the wrap: 10 ms after a step
    at counter value `W - 50` it lets a 100 ms animation step again -/
def dueUnsafe (W : Nat) (a : Anim) (now : Nat) : Bool :=
  !(a.speed > 0 && a.lastStep > 0 && decide (now < (a.lastStep + a.speed) % W))

end Reduino.Lcd
