import Reduino.Fw.Basic
/-
  Firmware buzzer blocks emitted by src/Reduino/transpile/emitter.py (BuzzerPlayTone, BuzzerStop, BuzzerBeep,
  BuzzerSweep, BuzzerMelody) over the shadow state `__buzzer_state_x, __buzzer_current_x, __buzzer_last_x`.
-/
namespace Reduino.Fw

structure Buzzer (α : Type) where
  pin : Int
  state : Bool
  current : α
  last : α

inductive BuzzerOp (α : Type) where
  | playTone (freq : Val α) (dur : Option (Val α))
  | stop
  | beep (freq : Option (Val α)) (onMs offMs times : Val α)
  | sweep (startHz endHz duration steps : Val α)
  | melody (name : String) (tempo : Option (Val α))

/-- a melody: default tempo and (frequency, beats) pairs, each a decimal literal num/den -/
structure Score where
  tempo : Int × Int
  notes : List ((Int × Int) × (Int × Int))
  deriving DecidableEq, Repr

/-- the bundled tunes (transcribed once from the documented table; obligation `gen_melodies` ties it to the source) -/
def melodies : List (String × Score) :=
  [("success", ⟨(240, 1), [((2093, 4), (1, 2)), ((2637, 4), (1, 2)), ((78399, 100), (1, 1))]⟩),
   ("error", ⟨(200, 1), [((32963, 100), (1, 2)), ((26163, 100), (3, 2))]⟩),
   ("startup", ⟨(200, 1), [((26163, 100), (1, 2)), ((32963, 100), (1, 2)), ((392, 1), (1, 2)), ((2093, 4), (1, 1))]⟩),
   ("notify", ⟨(240, 1), [((78399, 100), (1, 4)), ((0, 1), (1, 4)), ((78399, 100), (1, 2))]⟩),
   ("alarm", ⟨(200, 1), [((2093, 4), (1, 2)), ((392, 1), (1, 2)), ((2093, 4), (1, 2)), ((392, 1), (1, 2)), ((2093, 4), (1, 2)), ((392, 1), (1, 2)), ((2093, 4), (1, 2)), ((392, 1), (1, 2))]⟩),
   ("scale_c", ⟨(200, 1), [((26163, 100), (1, 2)), ((14683, 50), (1, 2)), ((32963, 100), (1, 2)), ((34923, 100), (1, 2)), ((392, 1), (1, 2)), ((440, 1), (1, 2)), ((12347, 25), (1, 2)), ((2093, 4), (1, 1))]⟩),
   ("siren", ⟨(180, 1), [((2637, 4), (3, 4)), ((2093, 4), (3, 4)), ((2637, 4), (3, 4)), ((2093, 4), (3, 4)), ((2637, 4), (3, 4)), ((2093, 4), (3, 4))]⟩)]

structure BOut (α : Type) where
  st : Buzzer α
  evs : List Ev
  /-- `false` when the call hits C undefined/wrapping behaviour (a negative duration cast to unsigned) -/
  defined : Bool := true

namespace Buzzer
variable {α : Type} [Num α] [LT α] [LE α] [DecidableLT α] [DecidableLE α]
variable [Add α] [Sub α] [Mul α] [Div α] [Neg α]

def init (pin : Int) (dflt : Val α) : Buzzer α :=
  { pin := pin, state := false, current := fzero, last := dflt.toF }

def clamp0 (x : α) : α := if x < fzero then fzero else x

/-- start sounding `f` (> 0) or silence the pin (`f ≤ 0`) -/
def sound (b : Buzzer α) (f : α) : Buzzer α × List Ev :=
  if fzero < f then ({ b with state := true, current := f, last := f }, [.tone b.pin (toneOf f)])
  else ({ b with state := false, current := fzero }, [.noTone b.pin])

def silence (b : Buzzer α) : Buzzer α × List Ev :=
  ({ b with state := false, current := fzero }, [.noTone b.pin])

def delayIf (ms : Int) : List Ev := if 0 < ms then [.delay ms] else []

def beepLoop (ft : α) (onMs offMs : Int) : Nat → Nat → Buzzer α → List Ev → Buzzer α × List Ev
  | 0, _, b, acc => (b, acc)
  | k + 1, total, b, acc =>
    let (b1, e1) := sound b ft
    let (b2, e2) := silence b1
    let last := k = 0
    beepLoop ft onMs offMs k total b2 (acc ++ e1 ++ delayIf onMs ++ e2 ++ (if last then [] else delayIf offMs))

def sweepLoop (s e : α) (steps : Int) (stepDelay : α) : Nat → Int → Buzzer α → List Ev → Buzzer α × List Ev
  | 0, _, b, acc => (b, acc)
  | k + 1, i, b, acc =>
    let progress : α := if steps = 1 then Num.ofInt 1 else Num.ofInt i / (Num.ofInt steps - Num.ofInt 1)
    let f := clamp0 (s + (e - s) * progress)
    let (b1, e1) := sound b f
    let d : List Ev := if fzero < stepDelay then [.delay (Num.trunc stepDelay)] else []
    sweepLoop s e steps stepDelay k (i + 1) b1 (acc ++ e1 ++ d)

def melodyLoop (beatMs : α) : List ((Int × Int) × (Int × Int)) → Buzzer α → List Ev → Buzzer α × List Ev
  | [], b, acc => (b, acc)
  | ((fn, fd), (bn, bd)) :: rest, b, acc =>
    let f : α := if fn = 0 then fzero else lit fn fd
    let dur : α := lit bn bd * beatMs
    let d : List Ev := if fzero < dur then [.delay (Num.trunc dur)] else []
    if f ≤ fzero then
      let (b1, e1) := silence b
      melodyLoop beatMs rest b1 (acc ++ e1 ++ d)
    else
      let b1 : Buzzer α := { b with state := true, current := f, last := f }
      let (b2, e2) := silence b1
      melodyLoop beatMs rest b2 (acc ++ [.tone b.pin (toneOf f)] ++ d ++ e2)

def step (b : Buzzer α) : BuzzerOp α → BOut α
  | .playTone freq dur =>
    let f := clamp0 freq.toF
    let (b1, e1) := sound b f
    match dur with
    | none => { st := b1, evs := e1 }
    | some d =>
      match toULong d with
      | none => { st := b1, evs := e1, defined := false }
      | some ms =>
        let e2 := delayIf ms
        let e3 : List Ev := if fzero < f then [.noTone b.pin] else []
        { st := { b1 with state := false, current := fzero }, evs := e1 ++ e2 ++ e3 }
  | .stop => let (b1, e1) := silence b; { st := b1, evs := e1 }
  | .beep freq onMs offMs times =>
    let ft := clamp0 (match freq with | some f => f.toF | none => b.last)
    match toULong onMs, toULong offMs with
    | some on, some off =>
      let n := (toCInt times).toNat
      let (b1, e1) := beepLoop ft on off n n b []
      { st := b1, evs := e1 }
    | _, _ => { st := b, evs := [], defined := false }
  | .sweep s e duration steps =>
    let s' := clamp0 s.toF
    let e' := clamp0 e.toF
    match toULong duration with
    | none => { st := b, evs := [], defined := false }
    | some total =>
      let n : Int := if toCInt steps < 1 then 1 else toCInt steps
      let stepDelay : α := Num.ofInt total / Num.ofInt n
      let (b1, e1) := sweepLoop s' e' n stepDelay n.toNat 0 b []
      let (b2, e2) := silence b1
      { st := b2, evs := e1 ++ e2 }
  | .melody name tempo =>
    match melodies.lookup name with
    | none => { st := b, evs := [] }
    | some sc =>
      let dflt : α := lit sc.tempo.1 sc.tempo.2
      let t0 : α := match tempo with | some t => t.toF | none => dflt
      let t : α := if t0 ≤ fzero then dflt else t0
      let beatMs : α := Num.ofInt 60000 / t
      let (b1, e1) := melodyLoop beatMs sc.notes b []
      { st := b1, evs := e1 }

end Buzzer
end Reduino.Fw
