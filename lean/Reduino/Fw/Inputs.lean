import Reduino.Fw.Basic
/-
  Firmware input blocks: ButtonPoll (emitter.py `_emit_block`), button setup sample (emit() pass 1) and the
  generated `__redu_ultrasonic_measure_<name>()` helper.  Time is the millisecond clock as a natural number
  (wrap-around at 2^32 ms is outside the model).
-/
namespace Reduino.Fw

/-! ### Button -/
structure Button where
  prev : Bool := false
  value : Bool := false
  deriving DecidableEq, Repr

/-- `setup()`: `prev = (digitalRead(pin) == HIGH); value = prev;` -/
def Button.setupSample (s : Bool) : Button := { prev := s, value := s }

/-- one `ButtonPoll` at the head of `loop()` with sampled level `s`: new state and whether `on_click` ran -/
def Button.poll (b : Button) (s : Bool) : Button × Bool := ({ prev := s, value := s }, s && !b.prev)

/-- passes of `loop()`: per pass (did the handler run, what every `is_pressed()` of that pass returns) -/
def Button.passes : Button → List Bool → List (Bool × Bool)
  | _, [] => []
  | b, s :: rest => ((b.poll s).2, (b.poll s).1.value) :: Button.passes (b.poll s).1 rest

def Button.clickCount (b : Button) (sig : List Bool) : Nat := ((b.passes sig).filter (·.1)).length

/-! ### Ultrasonic -/
structure Ultra (α : Type) where
  lastTrigger : Nat
  lastDistance : α
  has : Bool

inductive UEv where
  | delay (ms : Nat)
  /-- the 10 µs trigger pulse, stamped with the clock value last read before it -/
  | pulse (t : Nat)
  | echo (duration : Nat)
  /-- `__redu_last_trigger_ms = millis()` -/
  | stamp (t : Nat)
  deriving DecidableEq, Repr

structure UOut (α : Type) where
  st : Ultra α
  now : Nat
  result : α
  evs : List UEv
  /-- unread remainder of the echo / clock-drift scripts -/
  echoes : List Nat
  drifts : List Nat

namespace Ultra
variable {α : Type} [Num α] [LT α] [LE α] [DecidableLT α] [DecidableLE α]
variable [Add α] [Sub α] [Mul α] [Div α] [Neg α]

def init : Ultra α := { lastTrigger := 0, lastDistance := Num.ofInt 400, has := false }

/-- `millis()`: the environment may let any non-negative time pass (next entry of `drifts`, 0 if exhausted) -/
def millis (now : Nat) (drifts : List Nat) : Nat × List Nat :=
  match drifts with
  | [] => (now, [])
  | d :: rest => (now + d, rest)

def minInterval : Nat := 60
def maxAttempts : Nat := 3

def distanceOf (duration : Nat) : α := (Num.ofInt (Int.ofNat duration) * lit 343 10000) / Num.ofInt 2

/-- the attempt loop; `k` = attempts left -/
def attempts : Nat → Ultra α → Nat → List Nat → List Nat → List UEv → UOut α
  | 0, u, now, echoes, drifts, acc =>
    { st := u, now := now, result := if u.has then u.lastDistance else Num.ofInt 400, evs := acc, echoes := echoes, drifts := drifts }
  | k + 1, u, now, echoes, drifts, acc =>
    let (now1, dr1) := millis now drifts
    -- rate limiter
    let (now2, dr2, acc2) :=
      if u.lastTrigger ≠ 0 ∧ now1 - u.lastTrigger < minInterval then
        let wait := minInterval - (now1 - u.lastTrigger)
        let (n', d') := millis (now1 + wait) dr1
        (n', d', acc ++ [.delay wait])
      else (now1, dr1, acc)
    let dur := echoes.headD 0
    let echoes' := echoes.tail
    let (now3, dr3) := millis now2 dr2
    let u' := { u with lastTrigger := now3 }
    let acc3 := acc2 ++ [.pulse now2, .echo dur, .stamp now3]
    if 0 < dur then
      let d : α := distanceOf dur
      { st := { u' with lastDistance := d, has := true }, now := now3, result := d, evs := acc3, echoes := echoes', drifts := dr3 }
    else attempts k u' now3 echoes' dr3 acc3

/-- one call of `measure_distance()` -/
def measure (u : Ultra α) (now : Nat) (echoes drifts : List Nat) : UOut α :=
  attempts maxAttempts u now echoes drifts []

end Ultra
end Reduino.Fw
