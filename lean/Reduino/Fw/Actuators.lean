import Reduino.Fw.Basic
/-
  Firmware actuator blocks emitted by src/Reduino/transpile/emitter.py for Led, RGBLed, Servo and DCMotor,
  as pure functions over the shadow state (`__state_x`, `__brightness_x`, `__rgb_*_x`, `__servo_*_x`, `__dc_*_x`).
  `defined = false` marks a C cast of a negative value to an unsigned delay.
-/
namespace Reduino.Fw

structure FOut (σ : Type) where
  st : σ
  evs : List Ev
  defined : Bool := true

def clamp255 (n : Int) : Int := if n < 0 then 0 else if n > 255 then 255 else n

/-! ### Led -/
structure FLed where
  pin : Int
  state : Bool := false
  brightness : Int := 0
  deriving DecidableEq, Repr

inductive FLedOp (α : Type) where
  | on | off | toggle
  | setBrightness (v : Val α)
  | blink (duration times : Val α)
  | fadeIn (step delay : Val α)
  | fadeOut (step delay : Val α)
  | flashPattern (pattern : List Int) (delay : Val α)

namespace FLed
variable {α : Type} [Num α] [LT α] [LE α] [DecidableLT α] [DecidableLE α]
variable [Add α] [Sub α] [Mul α] [Div α] [Neg α]

def setPwm (l : FLed) (b : Int) : FLed × List Ev :=
  ({ l with brightness := b, state := decide (b > 0) }, [.aWrite l.pin b])

def blinkLoop (pin d : Int) : Nat → List Ev
  | 0 => []
  | k + 1 => [.dWrite pin 1, .delay d, .dWrite pin 0, .delay d] ++ blinkLoop pin d k

/-- `while (value < 255) { write value; delay; value += step; clamp }` -/
def fadeInLoop (pin step d : Int) (h : 0 < step) (value : Int) : List Ev :=
  if hv : value < 255 then
    [.aWrite pin value, .delay d] ++ fadeInLoop pin step d h (if value + step > 255 then 255 else value + step)
  else []
termination_by (255 - value).toNat
decreasing_by split <;> omega

def fadeOutLoop (pin step d : Int) (h : 0 < step) (value : Int) : List Ev :=
  if hv : 0 < value then
    [.aWrite pin value, .delay d] ++ fadeOutLoop pin step d h (if value - step < 0 then 0 else value - step)
  else []
termination_by value.toNat
decreasing_by split <;> omega

def flashLoop (pin d : Int) : FLed → List Int → FLed × List Ev
  | l, [] => (l, [])
  | l, v :: rest =>
    let (l1, e1) : FLed × List Ev :=
      if v ≤ 0 then ({ l with brightness := 0, state := false }, [.dWrite pin 0])
      else if v = 1 then ({ l with brightness := 255, state := true }, [.dWrite pin 1])
      else
        let b := if v > 255 then 255 else v
        ({ l with brightness := b, state := decide (b > 0) }, [.aWrite pin b])
    let gap : List Ev := if rest.isEmpty then [] else [.delay d]
    let (l2, e2) := flashLoop pin d l1 rest
    (l2, e1 ++ gap ++ e2)

def step (l : FLed) : FLedOp α → FOut FLed
  | .on => { st := { l with state := true, brightness := 255 }, evs := [.dWrite l.pin 1] }
  | .off => { st := { l with state := false, brightness := 0 }, evs := [.dWrite l.pin 0] }
  | .toggle =>
    let s := !l.state
    { st := { l with state := s, brightness := if s then 255 else 0 }, evs := [.dWrite l.pin (if s then 1 else 0)] }
  | .setBrightness v => let (l', e) := setPwm l (clamp255 (toCInt v)); { st := l', evs := e }
  | .blink d times =>
    match toULong d with
    | none => { st := l, evs := [], defined := false }
    | some ms =>
      let n := (toCInt times).toNat
      { st := { l with state := false, brightness := 0 }, evs := blinkLoop l.pin ms n ++ [.dWrite l.pin 0] }
  | .fadeIn stepv delay =>
    match toULong delay with
    | none => { st := l, evs := [], defined := false }
    | some ms =>
      let k := if toCInt stepv ≤ 0 then 1 else toCInt stepv
      if h : 0 < k then
        { st := { l with brightness := 255, state := true },
          evs := fadeInLoop l.pin k ms h (clamp255 l.brightness) ++ [.aWrite l.pin 255] }
      else { st := l, evs := [] }
  | .fadeOut stepv delay =>
    match toULong delay with
    | none => { st := l, evs := [], defined := false }
    | some ms =>
      let k := if toCInt stepv ≤ 0 then 1 else toCInt stepv
      if h : 0 < k then
        { st := { l with brightness := 0, state := false },
          evs := fadeOutLoop l.pin k ms h (clamp255 l.brightness) ++ [.aWrite l.pin 0] }
      else { st := l, evs := [] }
  | .flashPattern p delay =>
    if p.isEmpty then { st := l, evs := [] }
    else match toULong delay with
      | none => { st := l, evs := [], defined := false }
      | some ms => let (l', e) := flashLoop l.pin ms l p; { st := l', evs := e }

end FLed

/-! ### RGBLed -/
structure FRgb where
  pins : Int × Int × Int
  color : Int × Int × Int := (0, 0, 0)
  state : Bool := false
  deriving DecidableEq, Repr

inductive FRgbOp (α : Type) where
  | setColor (r g b : Val α)      -- also `on(r, g, b)`
  | off
  | fade (r g b duration steps : Val α)
  | blink (r g b times delay : Val α)

namespace FRgb
variable {α : Type} [Num α] [LT α] [LE α] [DecidableLT α] [DecidableLE α]
variable [Add α] [Sub α] [Mul α] [Div α] [Neg α]

def isOn (c : Int × Int × Int) : Bool := decide (c.1 > 0) || decide (c.2.1 > 0) || decide (c.2.2 > 0)

def write (s : FRgb) (c : Int × Int × Int) : FRgb × List Ev :=
  ({ s with color := c, state := isOn c },
   [.aWrite s.pins.1 c.1, .aWrite s.pins.2.1 c.2.1, .aWrite s.pins.2.2 c.2.2])

def clampC (r g b : Val α) : Int × Int × Int :=
  (clamp255 (toCInt r), clamp255 (toCInt g), clamp255 (toCInt b))

/-- integer rounding used by the fade block: `start + (num ± steps/2) / steps` with C truncating division -/
def fadeChan (start target i steps : Int) : Int :=
  let num := (target - start) * i
  let num' := if num ≥ 0 then num + Int.tdiv steps 2 else num - Int.tdiv steps 2
  start + Int.tdiv num' steps

def fadeLoop (start target : Int × Int × Int) (steps delayMs : Int) : Nat → Int → FRgb → List Ev → FRgb × List Ev
  | 0, _, s, acc => (s, acc)
  | k + 1, i, s, acc =>
    let c := (fadeChan start.1 target.1 i steps, fadeChan start.2.1 target.2.1 i steps, fadeChan start.2.2 target.2.2 i steps)
    let (s1, e1) := write s c
    let d : List Ev := if i ≠ steps ∧ 0 < delayMs then [.delay delayMs] else []
    fadeLoop start target steps delayMs k (i + 1) s1 (acc ++ e1 ++ d)

def blinkLoop (c : Int × Int × Int) (d : Int) : Nat → FRgb → List Ev → FRgb × List Ev
  | 0, s, acc => (s, acc)
  | k + 1, s, acc =>
    let (s1, e1) := write s c
    let (s2, e2) := write s1 (0, 0, 0)
    let dl : List Ev := if 0 < d then [.delay d] else []
    blinkLoop c d k s2 (acc ++ e1 ++ dl ++ e2 ++ dl)

def step (s : FRgb) : FRgbOp α → FOut FRgb
  | .setColor r g b => let (s', e) := write s (clampC r g b); { st := s', evs := e }
  | .off => let (s', e) := write s (0, 0, 0); { st := s', evs := e }
  | .fade r g b duration steps =>
    -- `long duration = expr` (negative → 0), `int steps = expr` (≤ 0 → 1)
    let dur : Int := if toCInt duration < 0 then 0 else toCInt duration
    let n : Int := if toCInt steps ≤ 0 then 1 else toCInt steps
    let target := clampC r g b
    if dur = 0 ∨ s.color = target then
      let (s', e) := write s target; { st := s', evs := e }
    else
      -- step_delay = float(duration) / float(steps); delay_ms = (unsigned long)(step_delay + 0.5f)
      let sd : α := Num.ofInt dur / Num.ofInt n
      let dms : Int := if sd ≤ fzero then 0 else Num.trunc (sd + lit 1 2)
      let (s', e) := fadeLoop s.color target n dms n.toNat 1 s []
      { st := s', evs := e }
  | .blink r g b times delay =>
    let n := (toCInt times).toNat
    let d : Int := if toCInt delay < 0 then 0 else toCInt delay
    let target := clampC r g b
    let (s1, e1) := blinkLoop target d n s []
    -- restore the original colour AND the original state flag
    { st := { s1 with color := s.color, state := s.state },
      evs := e1 ++ [.aWrite s.pins.1 s.color.1, .aWrite s.pins.2.1 s.color.2.1, .aWrite s.pins.2.2 s.color.2.2] }

end FRgb

/-! ### Servo -/
structure FServo (α : Type) where
  minA : α
  maxA : α
  minP : α
  maxP : α
  angle : α
  pulse : α

inductive FServoOp (α : Type) where
  | write (a : Val α)
  | writeUs (p : Val α)

namespace FServo
variable {α : Type} [Num α] [LT α] [LE α] [DecidableLT α] [DecidableLE α]
variable [Add α] [Sub α] [Mul α] [Div α] [Neg α]

def init (minA maxA minP maxP : Val α) : FServo α :=
  { minA := minA.toF, maxA := maxA.toF, minP := minP.toF, maxP := maxP.toF, angle := minA.toF, pulse := minP.toF }

def clampTo (lo hi x : α) : α := let y := if x < lo then lo else x; if hi < y then hi else y

def isZ (x : α) : Bool := !(decide (x < fzero)) && !(decide (fzero < x))

def step (s : FServo α) : FServoOp α → FOut (FServo α)
  | .write a =>
    let ang := clampTo s.minA s.maxA a.toF
    let span0 := s.maxA - s.minA
    let span := if isZ span0 then Num.ofInt 1 else span0
    let pulse := clampTo s.minP s.maxP (s.minP + ((ang - s.minA) / span) * (s.maxP - s.minP))
    { st := { s with angle := ang, pulse := pulse }, evs := [.servoWrite (Num.trunc (ang + lit 1 2))] }
  | .writeUs p =>
    let pulse := clampTo s.minP s.maxP p.toF
    let span0 := s.maxP - s.minP
    let span := if isZ span0 then Num.ofInt 1 else span0
    let ang := s.minA + ((pulse - s.minP) / span) * (s.maxA - s.minA)
    { st := { s with angle := ang, pulse := pulse }, evs := [.servoUs (Num.trunc (pulse + lit 1 2))] }

end FServo

/-! ### DCMotor -/
inductive FMode where | coast | drive | brake
  deriving DecidableEq, Repr

def FMode.name : FMode → String
  | .coast => "coast" | .drive => "drive" | .brake => "brake"

structure FMotor (α : Type) where
  pins : Int × Int × Int      -- in1, in2, enable
  speed : α
  inverted : Bool
  mode : FMode

inductive FMotorOp (α : Type) where
  | setSpeed (v : Val α)
  | backward (v : Val α)
  | stop | coast | invert
  | ramp (target duration : Val α)
  | runFor (duration speed : Val α)

namespace FMotor
variable {α : Type} [Num α] [LT α] [LE α] [DecidableLT α] [DecidableLE α]
variable [Add α] [Sub α] [Mul α] [Div α] [Neg α]

def one : α := Num.ofInt 1

def init (pins : Int × Int × Int) : FMotor α := { pins := pins, speed := fzero, inverted := false, mode := .coast }

def clampSpeed (x : α) : α := let y := if x < -one then -one else x; if one < y then one else y

/-- `_emit_motor_drive_lines` -/
def drive (m : FMotor α) (value : α) (store : Bool) : FMotor α × List Ev :=
  let sp := clampSpeed value
  let m1 := if store then { m with speed := sp } else m
  let eff := if m.inverted then -sp else sp
  let ab0 := if fzero ≤ eff then eff else -eff
  let ab := if one < ab0 then one else ab0
  let pwm := clamp255 (Num.trunc (ab * Num.ofInt 255 + lit 1 2))
  let dir : List Ev :=
    if pwm = 0 then [.dWrite m.pins.1 0, .dWrite m.pins.2.1 0]
    else if fzero < eff then [.dWrite m.pins.1 1, .dWrite m.pins.2.1 0]
    else [.dWrite m.pins.1 0, .dWrite m.pins.2.1 1]
  ({ m1 with mode := if pwm = 0 then .coast else .drive }, dir ++ [.aWrite m.pins.2.2 pwm])

def brakeEvs (m : FMotor α) : List Ev := [.dWrite m.pins.1 1, .dWrite m.pins.2.1 1, .aWrite m.pins.2.2 0]

def rampLoop (start target : α) (delay : α) : Nat → Int → FMotor α → List Ev → FMotor α × List Ev
  | 0, _, m, acc => (m, acc)
  | k + 1, i, m, acc =>
    let fraction : α := Num.ofInt i / Num.ofInt 20
    let value := start + (target - start) * fraction
    let (m1, e1) := drive m value true
    let d : List Ev := if fzero < delay then [.delay (Num.trunc delay)] else []
    rampLoop start target delay k (i + 1) m1 (acc ++ e1 ++ d)

def step (m : FMotor α) : FMotorOp α → FOut (FMotor α)
  | .setSpeed v => let (m', e) := drive m v.toF true; { st := m', evs := e }
  | .backward v =>
    let x := v.toF
    let b := if x < fzero then -x else x
    let (m', e) := drive m (-b) true; { st := m', evs := e }
  | .stop => { st := { m with speed := fzero, mode := .brake }, evs := brakeEvs m }
  | .coast => { st := { m with speed := fzero, mode := .coast },
                evs := [.dWrite m.pins.1 0, .dWrite m.pins.2.1 0, .aWrite m.pins.2.2 0] }
  | .invert =>
    let m1 := { m with inverted := !m.inverted }
    let (m', e) := drive m1 m.speed false; { st := m', evs := e }
  | .ramp target duration =>
    let t := clampSpeed target.toF
    let dur0 := duration.toF
    let dur := if dur0 < fzero then fzero else dur0
    let delay := dur / Num.ofInt 20
    let (m', e) := rampLoop m.speed t delay 20 1 m []
    { st := m', evs := e }
  | .runFor duration speed =>
    let dur0 := duration.toF
    let dur := if dur0 < fzero then fzero else dur0
    let (m1, e1) := drive m speed.toF true
    { st := { m1 with speed := fzero, mode := .brake }, evs := e1 ++ [.delay (Num.trunc dur)] ++ brakeEvs m }

end FMotor
end Reduino.Fw
