import Reduino.Fw.Basic
/-
  LCD text: the emitted helper templates `__redu_lcd_clear_row`, `__redu_lcd_write_aligned`, `__redu_lcd_progress`
  and the display/backlight/brightness/glyph blocks (emitter.py), over an HD44780 cell matrix; and the host-side
  `Reduino.Displays.LCD` buffer operations (src/Reduino/Displays/LCD.py).  Text is ASCII (`List Char`).
-/
namespace Reduino.Lcd

abbrev Row := List Char
abbrev Grid := List Row

def blankRow (cols : Nat) : Row := List.replicate cols ' '
def blank (cols rows : Nat) : Grid := List.replicate rows (blankRow cols)

/-- overwrite cells `c, c+1, …` of one row with `s`; positions outside `0 ≤ · < row.length` are dropped -/
def putRow (row : Row) (c : Int) (s : List Char) : Row :=
  (List.range row.length).zipWith (fun i ch =>
    let k : Int := Int.ofNat i - c
    if 0 ≤ k ∧ k < Int.ofNat s.length then s.getD k.toNat ch else ch) row

/-- `setCursor(c, r); print(s)` on the cell matrix (a row index outside the matrix writes nothing) -/
def printAt (g : Grid) (c r : Int) (s : List Char) : Grid :=
  (List.range g.length).zipWith (fun i row => if Int.ofNat i = r then putRow row c s else row) g

inductive Align where | left | center | right
  deriving DecidableEq, Repr

/-- one `lcd.print` as seen by the "never off-row" monitor: column, row, length -/
structure Print where
  col : Int
  row : Int
  len : Nat
  deriving DecidableEq, Repr

structure Out where
  grid : Grid
  prints : List Print := []

/-! ### firmware templates -/
namespace Fw

def clearRow (g : Grid) (cols : Int) (row : Int) : Out :=
  if cols ≤ 0 then { grid := g }
  else { grid := printAt g 0 row (blankRow cols.toNat), prints := [⟨0, row, cols.toNat⟩] }

def writeAligned (g : Grid) (cols col row : Int) (text : List Char) (clear : Bool) (align : Align) : Out :=
  if cols ≤ 0 then { grid := g }
  else
    let col := if col < 0 then 0 else col
    if col ≥ cols then { grid := g }
    else
      let o1 : Out := if clear then clearRow g cols row else { grid := g }
      let available := cols - col
      let content := if (Int.ofNat text.length) > available then text.take available.toNat else text
      let room0 := available - Int.ofNat content.length
      let room := if room0 < 0 then 0 else room0
      let offset0 := match align with
        | .left => col
        | .center => col + Int.tdiv room 2
        | .right => col + room
      let offset :=
        if offset0 + Int.ofNat content.length > cols then
          let o := cols - Int.ofNat content.length
          if o < col then col else o
        else offset0
      { grid := printAt o1.grid offset row content, prints := o1.prints ++ [⟨offset, row, content.length⟩] }

/-- number of filled cells: `long filled = (long)value * width / max_value` after the clamps -/
def progressFilled (cols value maxValue width : Int) : Int × Int :=
  let width := if width ≤ 0 ∨ width > cols then cols else width
  let maxValue := if maxValue ≤ 0 then 1 else maxValue
  let value := if value < 0 then 0 else value
  let value := if value > maxValue then maxValue else value
  let filled := Int.tdiv (value * width) maxValue
  let filled := if filled < 0 then 0 else filled
  let filled := if filled > width then width else filled
  (filled, width)

def progress (g : Grid) (cols row value maxValue width : Int) (fill : Char) (label : List Char) : Out :=
  if cols ≤ 0 then { grid := g }
  else
    let (filled, width) := progressFilled cols value maxValue width
    let bar := (List.range width.toNat).map fun i => if Int.ofNat i < filled then fill else ' '
    let text := if label.length > 0 then label ++ [' '] ++ bar else bar
    let text := if Int.ofNat text.length > cols then text.take cols.toNat else text
    let o1 := clearRow g cols row
    { grid := printAt o1.grid 0 row text, prints := o1.prints ++ [⟨0, row, text.length⟩] }

/-- backlight shadow state of a parallel LCD with a backlight pin -/
structure Backlight where
  brightness : Int := 255
  on : Bool := true
  /-- level last written to the pin (setup writes the initial brightness) -/
  pin : Int := 255
  deriving DecidableEq, Repr

def Backlight.setOn (b : Backlight) (on : Bool) : Backlight :=
  if on then { b with on := true, pin := b.brightness } else { b with on := false, pin := 0 }

/-- `brightness(level)`: `static_cast<int>`, clamp to 0..255, write only while the backlight is on -/
def clampLevel (n : Int) : Int := if n < 0 then 0 else if n > 255 then 255 else n

def Backlight.setLevel (b : Backlight) (level : Int) : Backlight :=
  let l := clampLevel level
  if b.on then { b with brightness := l, pin := l } else { b with brightness := l }

/-- rows handed to `createChar`: each value `& 0x1F` -/
def glyphRows (bitmap : List Int) : List Int := bitmap.map (· % 32)

end Fw

/-! ### host class -/
namespace Host

structure LCD where
  cols : Nat
  rows : Nat
  buffer : Grid
  displayOn : Bool := true
  backlightOn : Bool := true
  brightness : Int := 255
  glyphs : List (Int × List Int) := []

def LCD.create (cols rows : Nat) : LCD := { cols := cols, rows := rows, buffer := blank cols rows }

def setRow (g : Grid) (r : Nat) (row : Row) : Grid :=
  (List.range g.length).zipWith (fun i old => if i = r then row else old) g

/-- `_place_text` (row already validated) -/
def placeText (l : LCD) (row : Nat) (text : List Char) (align : Align) (startCol : Int) : Grid × List Print :=
  let cols : Int := Int.ofNat l.cols
  let available := max 0 (cols - max 0 startCol)
  if available ≤ 0 then (l.buffer, [])
  else
    let content := if Int.ofNat text.length > available then text.take available.toNat else text
    let len : Int := Int.ofNat content.length
    let col0 := match align with
      | .left => startCol
      | .right => startCol + (available - len)
      | .center => startCol + (available - len) / 2
    let col := max startCol (min (cols - len) col0)
    (setRow l.buffer row (putRow (l.buffer.getD row []) col content), [⟨col, Int.ofNat row, content.length⟩])

def validRow (l : LCD) (row : Int) : Option Nat := if 0 ≤ row ∧ row < Int.ofNat l.rows then some row.toNat else none

def line (l : LCD) (row : Int) (text : List Char) (align : Align) (clear : Bool) : Except Exc (LCD × List Print) :=
  match validRow l row with
  | none => .error .valueError
  | some r =>
    let l1 := if clear then { l with buffer := setRow l.buffer r (blankRow l.cols) } else l
    let (g, p) := placeText l1 r text align 0
    .ok ({ l1 with buffer := g }, p)

def write (l : LCD) (col row : Int) (text : List Char) (clear : Bool) (align : Align) : Except Exc (LCD × List Print) :=
  match validRow l row with
  | none => .error .valueError
  | some r =>
    let l1 := if clear then { l with buffer := setRow l.buffer r (blankRow l.cols) } else l
    let (g, p) := placeText l1 r text align col
    .ok ({ l1 with buffer := g }, p)

def message (l : LCD) (top bottom : Option (List Char)) (ta ba : Align) (clear : Bool) : Except Exc (LCD × List Print) := do
  let (l1, p1) ← match top with
    | some t => line l 0 t ta clear
    | none => pure (l, [])
  match bottom with
  | some b => if l1.rows > 1 then do let (l2, p2) ← line l1 1 b ba clear; pure (l2, p1 ++ p2) else pure (l1, p1)
  | none => pure (l1, p1)

def clear (l : LCD) : LCD := { l with buffer := blank l.cols l.rows }

variable {α : Type} [Num α] [LT α] [LE α] [DecidableLT α] [DecidableLE α] [Add α] [Sub α] [Mul α] [Div α] [Neg α]

/-- `filled = int(round(ratio * total_width))`, `ratio = 0 if max <= 0 else clamp(value / max, 0, 1)` -/
def progressFilled (cols : Nat) (value maxValue : Int) (width : Option Int) : Int × Int :=
  let tw : Int := match width with
    | none => Int.ofNat cols
    | some w => max 1 (min (Int.ofNat cols) w)
  let filled : Int :=
    if maxValue ≤ 0 then 0
    else
      let r : α := (Num.ofInt value : α) / Num.ofInt maxValue
      let r := if r < Num.ofInt 0 then Num.ofInt 0 else if Num.ofInt 1 < r then Num.ofInt 1 else r
      Num.roundHE (r * Num.ofInt tw)
  (filled, tw)

def progress (l : LCD) (row value maxValue : Int) (width : Option Int) (fill : Char) (label : List Char) : Except Exc LCD :=
  match validRow l row with
  | none => .error .valueError
  | some r =>
    let (filled, tw) := progressFilled (α := α) l.cols value maxValue width
    let empty := max 0 (tw - filled)
    let bar := List.replicate filled.toNat fill ++ List.replicate empty.toNat ' '
    let text := (if label.length > 0 then label ++ [' '] ++ bar else bar).take l.cols
    .ok { l with buffer := setRow l.buffer r (text ++ List.replicate (l.cols - text.length) ' ') }

def display (l : LCD) (on : Bool) : LCD := { l with displayOn := on, backlightOn := on }
def backlight (l : LCD) (on : Bool) : LCD := { l with backlightOn := on }

/-- `brightness(level)` on a parallel display with a backlight pin -/
def setBrightness (l : LCD) (level : Int) : Except Exc LCD :=
  if 0 ≤ level ∧ level ≤ 255 then .ok { l with brightness := level } else .error .valueError

/-- `glyph(slot, bitmap)`: the stored rows -/
def glyph (slot : Int) (bitmap : List Int) : Except Exc (List Int) :=
  if ¬ (0 ≤ slot ∧ slot ≤ 7) then .error .valueError
  else
    let v := (bitmap.map (· % 32)).take 8
    if v.length ≠ 8 then .error .valueError else .ok v

end Host
end Reduino.Lcd
