/-
  The millisecond counter of the board: `millis()` returns the real time modulo `W` (`W = 2^32` for the AVR `unsigned long`,
  `2^64` for the host compiler of the mock core), and the templates compute elapsed time as the unsigned difference
  `now - last`, i.e. modulo `W`.  The firmware models use a natural-number clock; the theorems here are what carries
  their results across the counter's wrap-around.
-/
namespace Reduino.Fw.Clock

/-- unsigned subtraction `a - b` of two counter values (`a, b < W`) -/
def usub (W a b : Nat) : Nat := (a + W - b) % W

/-- unsigned subtraction of counter values is the real elapsed time, as long as that is less than one full turn of the counter -/
theorem counter_difference (W t t' : Nat) (h : t ≤ t') (hw : t' - t < W) :
    usub W (t' % W) (t % W) = t' - t := by
  unfold usub
  have hW : 0 < W := by omega
  obtain ⟨d, rfl⟩ := Nat.exists_eq_add_of_le h
  have hd : d < W := by omega
  have ha : t % W < W := Nat.mod_lt _ hW
  have e : (t + d) % W = (t % W + d) % W := by rw [Nat.add_mod, Nat.mod_eq_of_lt hd]
  rw [e]
  by_cases hc : t % W + d < W
  · rw [Nat.mod_eq_of_lt hc]
    have : t % W + d + W - t % W = d + W := by omega
    rw [this, Nat.add_mod_right, Nat.mod_eq_of_lt hd]; omega
  · have h2 : (t % W + d) % W = t % W + d - W := by
      rw [Nat.mod_eq_sub_mod (by omega), Nat.mod_eq_of_lt (by omega)]
    rw [h2]
    have : t % W + d - W + W - t % W = d := by omega
    rw [this, Nat.mod_eq_of_lt hd]; omega

end Reduino.Fw.Clock
