import Reduino.Fw.Lcd
/-
  LCD animations: the emitted `__redu_lcd_start_* / __redu_lcd_tick_*` templates (emitter.py LCD_HELPER_SNIPPET)
  and the host `LCD.animate` / `LCD.tick` (src/Reduino/Displays/LCD.py), over the cell matrix of Fw/Lcd.lean.
  Time is the millisecond clock as a natural number.
-/
namespace Reduino.Lcd

inductive Style where | scroll | blink | typewriter | bounce
  deriving DecidableEq, Repr

structure Anim where
  style : Style
  text : List Char
  row : Nat
  speed : Nat
  loop : Bool
  lastStep : Nat := 0
  offset : Int := 0
  direction : Int := 1
  visible : Int := 0
  active : Bool := true
  shown : Bool := true
  cycles : Nat := 0
  deriving DecidableEq, Repr

/-- does the rate limiter let a step happen at clock value `now`? -/
def Anim.due (a : Anim) (now : Nat) : Bool :=
  !(a.speed > 0 && a.lastStep > 0 && decide (now - a.lastStep < a.speed))

def takeCols (cols : Nat) (s : List Char) : List Char := if s.length > cols then s.take cols else s

namespace Fw

/-- clear the row and print `s` at column `c` (what every frame does) -/
def frame (g : Grid) (cols : Nat) (row : Nat) (c : Int) (s : List Char) : Out :=
  let o := clearRow g (Int.ofNat cols) (Int.ofNat row)
  { grid := printAt o.grid c (Int.ofNat row) s, prints := o.prints ++ [⟨c, Int.ofNat row, s.length⟩] }

def start (style : Style) (g : Grid) (cols row : Nat) (text : List Char) (speed : Nat) (loop : Bool) : Anim × Out :=
  let base : Anim := { style := style, text := text, row := row, speed := speed, loop := loop }
  match style with
  | .scroll => ({ base with visible := 0 }, frame g cols row 0 (takeCols cols text))
  | .blink => ({ base with visible := Int.ofNat text.length }, frame g cols row 0 (takeCols cols text))
  | .typewriter =>
    let v : Nat := if text.length > 0 then 1 else 0
    ({ base with visible := Int.ofNat v },
     if v > 0 then frame g cols row 0 (takeCols cols (text.take v)) else clearRow g (Int.ofNat cols) (Int.ofNat row))
  | .bounce => ({ base with visible := Int.ofNat text.length, shown := false }, frame g cols row 0 (takeCols cols text))

/-- one step of an ACTIVE animation whose rate limiter has passed (`lastStep` already updated by `tick`) -/
def step (a : Anim) (g : Grid) (cols : Nat) : Anim × Out :=
  match a.style with
  | .scroll =>
    let padded := a.text ++ List.replicate (cols - a.text.length) ' ' ++ List.replicate cols ' '
    if padded.length = 0 then (a, { grid := g })
    else
      let off : Nat := if a.offset ≥ Int.ofNat padded.length then 0 else a.offset.toNat
      let window := (List.range cols).map fun i => padded.getD ((off + i) % padded.length) ' '
      let off' := off + 1
      let a' := if off' ≥ padded.length then (if a.loop then { a with offset := 0 } else { a with offset := Int.ofNat off', active := false })
                else { a with offset := Int.ofNat off' }
      (a', frame g cols a.row 0 window)
  | .blink =>
    let sh := !a.shown
    if sh then ({ a with shown := true }, frame g cols a.row 0 (takeCols cols a.text))
    else ({ a with shown := false, cycles := a.cycles + 1, active := a.loop }, clearRow g (Int.ofNat cols) (Int.ofNat a.row))
  | .typewriter =>
    let len : Int := Int.ofNat a.text.length
    if len ≤ 0 then ({ a with active := a.loop }, clearRow g (Int.ofNat cols) (Int.ofNat a.row))
    else if a.visible < len then
      let v := a.visible + 1
      let a' := { a with visible := v, active := if v ≥ len ∧ !a.loop then false else a.active }
      (a', frame g cols a.row 0 (takeCols cols (a.text.take v.toNat)))
    else if !a.loop then ({ a with active := false }, { grid := g })
    else ({ a with visible := 0 }, clearRow g (Int.ofNat cols) (Int.ofNat a.row))
  | .bounce =>
    let len : Int := Int.ofNat a.text.length
    if len ≤ 0 then ({ a with active := a.loop }, clearRow g (Int.ofNat cols) (Int.ofNat a.row))
    else if len ≥ Int.ofNat cols then ({ a with active := a.loop }, frame g cols a.row 0 (a.text.take cols))
    else
      let maxOff : Int := Int.ofNat cols - len
      let o1 := a.offset + a.direction
      let a' : Anim :=
        if o1 ≥ maxOff then { a with offset := maxOff, direction := -1, shown := true }
        else if o1 ≤ 0 then
          if a.shown then { a with offset := 0, direction := 1, cycles := a.cycles + 1, shown := false,
                                   active := if !a.loop then false else a.active }
          else { a with offset := 0, direction := 1 }
        else { a with offset := o1 }
      let avail := Int.ofNat cols - a'.offset
      let view := if len > avail then a.text.take avail.toNat else a.text
      (a', frame g cols a.row a'.offset view)

/-- `__redu_lcd_tick_*`: returns the new state, the output and whether a step happened -/
def tick (a : Anim) (g : Grid) (cols : Nat) (now : Nat) : Anim × Out × Bool :=
  if !a.active then (a, { grid := g }, false)
  else if !a.due now then (a, { grid := g }, false)
  else
    let (a', o) := step { a with lastStep := now } g cols
    (a', o, true)

end Fw

namespace Host

/-- `line(row, view, align="left", clear_row=True)` on the buffer -/
def setLine (g : Grid) (cols row : Nat) (s : List Char) : Grid :=
  setRow g row (putRow (blankRow cols) 0 (takeCols cols s))

def animate (style : Style) (g : Grid) (cols row : Nat) (text : List Char) (speed : Nat) (loop : Bool) : Anim × Grid :=
  let base : Anim := { style := style, text := text, row := row, speed := speed, loop := loop }
  match style with
  | .scroll => (base, setLine g cols row (text.take cols))
  | .blink => (base, setLine g cols row (text.take cols))
  | .typewriter =>
    let v := min text.length 1
    ({ base with visible := Int.ofNat v }, setLine g cols row ((text.take v).take cols))
  | .bounce => ({ base with shown := false }, setRow g row (putRow (blankRow cols) 0 (text.take cols)))

def step (a : Anim) (g : Grid) (cols : Nat) : Anim × Grid :=
  match a.style with
  | .scroll =>
    let padded := a.text ++ List.replicate cols ' '
    if padded.length = 0 then (a, g)
    else
      let off := a.offset.toNat
      let view := ((padded ++ padded).drop off).take cols
      let off' := off + 1
      let a' := if off' ≥ padded.length then (if a.loop then { a with offset := 0 } else { a with offset := Int.ofNat off', active := false })
                else { a with offset := Int.ofNat off' }
      (a', setLine g cols a.row view)
  | .blink =>
    let sh := !a.shown
    if sh then ({ a with shown := true }, setLine g cols a.row (a.text.take cols))
    else ({ a with shown := false, cycles := a.cycles + 1, active := if !a.loop then false else a.active }, setLine g cols a.row [])
  | .typewriter =>
    let len := a.text.length
    if len = 0 then ({ a with active := a.loop }, setLine g cols a.row [])
    else if a.visible < Int.ofNat len then
      let v := a.visible + 1
      let a' := { a with visible := v, active := if v ≥ Int.ofNat len ∧ !a.loop then false else a.active }
      (a', setLine g cols a.row ((a.text.take v.toNat).take cols))
    else if a.loop then ({ a with visible := 0 }, setLine g cols a.row [])
    else ({ a with active := false }, g)
  | .bounce =>
    let len := a.text.length
    if len = 0 then ({ a with active := a.loop }, setLine g cols a.row [])
    else if len ≥ cols then ({ a with active := a.loop }, setLine g cols a.row (a.text.take cols))
    else
      let maxOff : Int := Int.ofNat (cols - len)
      let o1 := a.offset + a.direction
      let a' : Anim :=
        if o1 ≥ maxOff then { a with offset := maxOff, direction := -1, shown := true }
        else if o1 ≤ 0 then
          if a.shown then { a with offset := 0, direction := 1, cycles := a.cycles + 1, shown := false,
                                   active := if !a.loop ∧ a.cycles + 1 ≥ 1 then false else a.active }
          else { a with offset := 0, direction := 1 }
        else { a with offset := o1 }
      (a', setRow g a.row (putRow (blankRow cols) a'.offset a.text))

/-- `LCD.tick(now_ms)` for one animation -/
def tick (a : Anim) (g : Grid) (cols : Nat) (now : Nat) : Anim × Grid × Bool :=
  if !a.active then (a, g, false)
  else if !a.due now then (a, g, false)
  else
    let (a', g') := step { a with lastStep := now } g cols
    (a', g', true)

end Host
end Reduino.Lcd
