/-
  Reduino.Basic — numeric values shared by every model.

  Python numbers that reach the modelled code are `int` (with `bool` as the ints 0/1) or `float`.
  Models are written once over a carrier `α` for the floats:
    * the driver instantiates `α := Float` (IEEE double, what CPython computes; compared bit-exact),
    * the theorems instantiate `α := K`, an arbitrary linearly ordered field with a floor.
  No Mathlib import here (model files stay core-only).
-/

namespace Reduino

/-- The three operations on floats that are not field operations. -/
class Num (α : Type) where
  ofInt   : Int → α
  /-- Python `int(x)`: truncation toward zero. -/
  trunc   : α → Int
  /-- Python `round(x)`: nearest integer, ties to even. -/
  roundHE : α → Int

/-- A Python number: `int` (bools are 0/1) or `float`. -/
inductive Val (α : Type) where
  | int (n : Int)
  | flt (x : α)
  deriving Repr

namespace Val
variable {α : Type} [Num α]

def toF : Val α → α
  | int n => Num.ofInt n
  | flt x => x

/-- Python `float(v)`. -/
def toFloat (v : Val α) : Val α := flt v.toF

/-- Python `int(v)`. -/
def toInt : Val α → Int
  | int n => n
  | flt x => Num.trunc x

variable [LT α] [LE α] [DecidableLT α] [DecidableLE α]

def lt : Val α → Val α → Bool
  | int a, int b => decide (a < b)
  | a, b => decide (a.toF < b.toF)

def le : Val α → Val α → Bool
  | int a, int b => decide (a ≤ b)
  | a, b => decide (a.toF ≤ b.toF)

/-- `lo <= v <= hi` as Python evaluates it. -/
def between (lo v hi : Val α) : Bool := le lo v && le v hi

variable [Add α] [Sub α] [Mul α] [Div α] [Neg α]

def add : Val α → Val α → Val α
  | int a, int b => int (a + b)
  | a, b => flt (a.toF + b.toF)

def sub : Val α → Val α → Val α
  | int a, int b => int (a - b)
  | a, b => flt (a.toF - b.toF)

def mul : Val α → Val α → Val α
  | int a, int b => int (a * b)
  | a, b => flt (a.toF * b.toF)

/-- Python true division (the divisor is known to be non-zero where this is used). -/
def div (a b : Val α) : Val α := flt (a.toF / b.toF)

def neg : Val α → Val α
  | int a => int (-a)
  | flt x => flt (-x)

/-- Python `abs`. -/
def abs (v : Val α) : Val α := if lt v (int 0) then neg v else v

/-- `v == 0` for numbers (no NaN): neither below nor above zero. -/
def isZero (v : Val α) : Bool := !(lt v (int 0)) && !(lt (int 0) v)

/-- Python `max(a, b)` (returns `a` unless `b` is strictly greater). -/
def pmax (a b : Val α) : Val α := if lt a b then b else a
/-- Python `min(a, b)` (returns `a` unless `b` is strictly smaller). -/
def pmin (a b : Val α) : Val α := if lt b a then b else a

end Val

/-! ### IEEE double instance used by the driver -/

def floatRoundHE (x : Float) : Int :=
  let f := x.floor
  let d := x - f
  let fi := f.toInt64.toInt
  if d < 0.5 then fi
  else if 0.5 < d then fi + 1
  else if fi % 2 == 0 then fi else fi + 1

instance : Num Float where
  ofInt := Float.ofInt
  trunc x := x.toInt64.toInt
  roundHE := floatRoundHE

/-! ### Outcome of one modelled call -/

/-- Exception classes the modelled code raises. -/
inductive Exc where
  | valueError | typeError | runtimeError | zeroDiv
  deriving DecidableEq, Repr

inductive Res where
  | ok
  | raise (e : Exc)
  /-- the model does not cover this argument shape; the harness never generates it -/
  | unsup
  deriving DecidableEq, Repr

def Exc.name : Exc → String
  | .valueError => "ValueError"
  | .typeError => "TypeError"
  | .runtimeError => "RuntimeError"
  | .zeroDiv => "ZeroDivisionError"

def Res.show : Res → String
  | .ok => "ok"
  | .raise e => "raise:" ++ e.name
  | .unsup => "unsup"

/-! ### Wire format helpers (driver only; no theorem depends on these) -/

def hexDigit (n : Nat) : Char :=
  if n < 10 then Char.ofNat (48 + n) else Char.ofNat (87 + n)

def toHex (width : Nat) (n : Nat) : String :=
  let rec go (k : Nat) (n : Nat) (acc : List Char) : List Char :=
    match k with
    | 0 => acc
    | k + 1 => go k (n / 16) (hexDigit (n % 16) :: acc)
  String.ofList (go width n [])

def fromHex (s : String) : Nat :=
  s.foldl (fun a c =>
    a * 16 + (if c.isDigit then c.toNat - 48 else if c.toNat ≥ 97 then c.toNat - 87 else c.toNat - 55)) 0

def showF64 (x : Float) : String := "f" ++ toHex 16 x.toBits.toNat
def showF32 (x : Float32) : String := "g" ++ toHex 8 x.toBits.toNat

def showVal : Val Float → String
  | .int n => "i" ++ toString n
  | .flt x => showF64 x

def showBool (b : Bool) : String := if b then "T" else "F"

/-- `i<decimal>` | `f<16 hex>` -/
def parseVal (s : String) : Option (Val Float) :=
  if s.startsWith "i" then (s.drop 1).toString.toInt?.map Val.int
  else if s.startsWith "f" then some (.flt (Float.ofBits (UInt64.ofNat (fromHex (s.drop 1).toString))))
  else none

def parseInt (s : String) : Option Int :=
  if s.startsWith "i" then (s.drop 1).toString.toInt? else none

end Reduino
