import Reduino.Basic
import Reduino.Host.Led
import Reduino.Host.RGBLed
import Reduino.Host.Servo
import Reduino.Host.DCMotor
import Reduino.Driver.All
